------------------------------ MODULE Platform ------------------------------
(***************************************************************************)
(* C20 -- every non-Linux platform layer keeps the same error contract and *)
(* record layout.                                                          *)
(*                                                                         *)
(* "Spec as oracle" (mode 5): Init ranges over the rows of a decision      *)
(* table, Observe publishes what the statement of the property demands for *)
(* that row.  Three kinds of rows:                                         *)
(*                                                                         *)
(*  err      one Process method of one platform layer is called while the  *)
(*           site-th per-process native call it makes fails with an OS     *)
(*           error; the PID is (not) still listed as a zombie; the PID is  *)
(*           0 or not; PID 0 is (not) listed by the system.  Expected: the *)
(*           class of the exception that may surface.                      *)
(*  layout   the named tuple a method must return, as a list of sources    *)
(*           <<native function, slot index>> resolved through slot tables  *)
(*           transcribed from the C sources (Py_BuildValue order), NOT     *)
(*           from the Python *_map dictionaries.                           *)
(*  platform the names the package must expose on that platform (from the  *)
(*           availability notes of docs/index.rst) and the native          *)
(*           function / slot tables the harness builds its stub C          *)
(*           extension from.                                               *)
(*                                                                         *)
(* The decision table is written from the STATEMENT, not from the code:    *)
(* it does not mention the method (the contract is the same for every      *)
(* method -- that is the property) and TLC checks that fact and the other  *)
(* meta-properties below over the whole enumerated table.                  *)
(***************************************************************************)
EXTENDS Naturals, Integers, Sequences, FiniteSets, TLC, Json

CONSTANTS Platforms,   \* platforms to enumerate (subset of AllPlatforms)
          ErrSel,      \* error names to enumerate (subset of Errnos \cup WinCodes)
          MaxSite      \* the failing call is the 1st .. MaxSite-th per-process native call

VARIABLES inp, out, ev
vars == <<inp, out, ev>>

AllPlatforms == {"freebsd", "openbsd", "netbsd", "macos", "sunos", "aix", "windows"}
BSDs     == {"freebsd", "openbsd", "netbsd"}
Procfs   == {"sunos", "aix"}         \* every per-process native access is a procfs file
Pid0Rule == BSDs \cup {"sunos"}      \* the documented PID 0 exception
Posix    == AllPlatforms \ {"windows"}

Errnos   == {"ESRCH", "ENOENT", "EPERM", "EACCES", "EIO", "EINVAL"}
WinCodes == {"ERROR_ACCESS_DENIED", "ERROR_PRIVILEGE_NOT_HELD",
             "ERROR_INVALID_PARAMETER", "ERROR_GEN_FAILURE"}
ErrorsOf(p) == IF p = "windows" THEN Errnos \cup WinCodes ELSE Errnos

\* kind of the native access that failed: a system call of the C extension
\* ("sys") or a read of a /proc/<pid>/... file ("procfs")
Kinds == {"sys", "procfs"}
KindsOf(p) == IF p = "windows" THEN {"sys"} ELSE Kinds      \* there is no procfs under the Windows layer

Classes == {"NoSuchProcess", "ZombieProcess", "AccessDenied", "Unchanged"}

(* ------------------------------------------------------------------------ *)
(* The error contract                                                       *)
(* ------------------------------------------------------------------------ *)

\* an OS "no such process" failure: ESRCH everywhere; a missing procfs entry
\* (ENOENT) where the process is looked up through /proc
NoProcErr(p, e, kind) == \/ e = "ESRCH"
                         \/ e = "ENOENT" /\ (p \in Procfs \/ kind = "procfs")

PermErr(e) == e \in {"EPERM", "EACCES", "ERROR_ACCESS_DENIED", "ERROR_PRIVILEGE_NOT_HELD"}

Pid0Exception(p, e, kind, pid, p0) ==
    /\ p \in Pid0Rule /\ pid = 0 /\ p0
    /\ ~ NoProcErr(p, e, kind) /\ ~ PermErr(e)

\* Expected(platform, method, error, kind, zombieListed, pid, pid0Listed)
Expected(p, m, e, kind, z, pid, p0) ==
    IF NoProcErr(p, e, kind) THEN (IF z THEN "ZombieProcess" ELSE "NoSuchProcess")
    ELSE IF PermErr(e) THEN "AccessDenied"
    ELSE IF Pid0Exception(p, e, kind, pid, p0) THEN "AccessDenied"
    ELSE "Unchanged"

\* What the statement leaves open: a listed PID 0 for which the OS answers
\* "no such process" is a contradictory kernel (PID 0 cannot be a zombie and
\* cannot vanish); the literal reading (NoSuchProcess) and the "still listed"
\* reading (ZombieProcess) are both accepted there.
Contradictory(p, e, kind, z, pid, p0) == p \in Posix /\ NoProcErr(p, e, kind) /\ pid = 0 /\ p0 /\ ~z

Allowed(p, m, e, kind, z, pid, p0) ==
    {Expected(p, m, e, kind, z, pid, p0)}
      \cup (IF Contradictory(p, e, kind, z, pid, p0) THEN {"ZombieProcess"} ELSE {})

(* ------------------------------------------------------------------------ *)
(* Process methods of each platform layer                                   *)
(* ------------------------------------------------------------------------ *)

CommonPosix == {"name", "exe", "cmdline", "environ", "ppid", "cwd", "uids", "gids", "terminal",
                "memory_info", "memory_full_info", "cpu_times", "create_time",
                "num_ctx_switches", "num_threads", "open_files", "net_connections",
                "num_fds", "nice_get", "nice_set", "status", "threads"}

Methods(p) ==
    CASE p = "freebsd" -> CommonPosix \cup {"io_counters", "cpu_num", "cpu_affinity_get",
                                            "cpu_affinity_set", "memory_maps", "rlimit_get", "rlimit_set"}
      [] p = "openbsd" -> CommonPosix \cup {"io_counters"}
      [] p = "netbsd"  -> CommonPosix \cup {"io_counters"}
      [] p = "macos"   -> CommonPosix
      [] p = "sunos"   -> CommonPosix \cup {"cpu_num", "memory_maps"}
      [] p = "aix"     -> (CommonPosix \ {"open_files"}) \cup {"io_counters"}   \* open_files() shells out to procfiles(1)
      [] p = "windows" -> {"name", "exe", "cmdline", "environ", "memory_info", "memory_full_info",
                           "memory_maps", "kill", "send_signal", "wait", "username", "create_time",
                           "num_threads", "threads", "cpu_times", "suspend", "resume", "cwd",
                           "open_files", "net_connections", "nice_get", "nice_set", "ionice_get",
                           "ionice_set", "io_counters", "status", "cpu_affinity_get",
                           "cpu_affinity_set", "num_handles", "num_ctx_switches"}

(* ------------------------------------------------------------------------ *)
(* Slot tables, transcribed from the C sources (Py_BuildValue order)         *)
(* ------------------------------------------------------------------------ *)

Family(p) == IF p \in BSDs THEN "bsd" ELSE IF p = "macos" THEN "osx" ELSE p

Slots ==
  \* psutil/arch/bsd/proc.c psutil_proc_oneshot_info: "(OillllllLdllllddddlllllbO)"
  ("bsd.proc_oneshot_info" :>
      <<"ppid", "status", "real_uid", "effective_uid", "saved_uid", "real_gid", "effective_gid",
        "saved_gid", "ttynr", "create_time", "ctx_vol", "ctx_unvol", "read_io_count",
        "write_io_count", "user_time", "sys_time", "ch_user_time", "ch_sys_time", "rss", "vms",
        "memtext", "memdata", "memstack", "cpunum", "name">>) @@
  ("bsd.proc_threads"    :> <<"id", "utime", "stime">>) @@          \* arch/*bsd/proc.c "Idd"
  ("bsd.proc_open_files" :> <<"path", "fd">>) @@                    \* "(Oi)"
  \* psutil/arch/osx/proc.c psutil_proc_kinfo_oneshot: _Py_PARSE_PID "llllllidiO"
  ("osx.proc_kinfo_oneshot" :>
      <<"ppid", "ruid", "euid", "suid", "rgid", "egid", "sgid", "ttynr", "ctime", "status", "name">>) @@
  \* psutil_proc_pidtaskinfo_oneshot: "(ddKKkkkk)"
  ("osx.proc_pidtaskinfo_oneshot" :>
      <<"cpuutime", "cpustime", "rss", "vms", "pfaults", "pageins", "numthreads", "volctxsw">>) @@
  ("osx.proc_memory_uss" :> <<"uss">>) @@
  ("osx.proc_threads"    :> <<"id", "utime", "stime">>) @@          \* "Iff"
  ("osx.proc_open_files" :> <<"path", "fd">>) @@
  \* psutil/_psutil_sunos.c psutil_proc_basic_info: "ikkdiiikiiii"
  ("sunos.proc_basic_info" :>
      <<"ppid", "rss", "vms", "create_time", "nice", "num_threads", "status", "ttynr",
        "uid", "euid", "gid", "egid">>) @@
  ("sunos.proc_cred"      :> <<"ruid", "euid", "suid", "rgid", "egid", "sgid">>) @@   \* "iiiiii"
  ("sunos.proc_cpu_times" :> <<"utime", "stime", "cutime", "cstime">>) @@           \* "(dddd)"
  ("sunos.proc_num_ctx_switches" :> <<"vctx", "ictx">>) @@                          \* "kk"
  ("sunos.query_process_thread"  :> <<"utime", "stime">>) @@                        \* "dd"
  ("sunos.proc_cpu_num"   :> <<"cpu">>) @@
  ("sunos.proc_name_and_args" :> <<"name", "args">>) @@                             \* "OO"
  \* psutil/_psutil_aix.c psutil_proc_basic_info: "KKKdiiiK"
  ("aix.proc_basic_info" :>
      <<"ppid", "rss", "vms", "create_time", "nice", "num_threads", "status", "ttynr">>) @@
  ("aix.proc_cred"      :> <<"ruid", "euid", "suid", "rgid", "egid", "sgid">>) @@
  ("aix.proc_cpu_times" :> <<"utime", "stime", "cutime", "cstime">>) @@
  ("aix.proc_num_ctx_switches" :> <<"nvcsw", "nivcsw">>) @@                         \* "LL"
  ("aix.proc_io_counters" :> <<"inOps", "outOps", "inBytes", "outBytes">>) @@       \* "(KKKK)"
  ("aix.proc_threads"   :> <<"tid", "ucpu", "scpu">>) @@                            \* "Idd"
  \* psutil/arch/windows/proc_info.c psutil_proc_info: "kkdddkKKKKKK" "kKKKKKKKKK"
  ("windows.proc_info" :>
      <<"num_handles", "ctx_switches", "user_time", "kernel_time", "create_time", "num_threads",
        "io_rcount", "io_wcount", "io_rbytes", "io_wbytes", "io_count_others", "io_bytes_others",
        "num_page_faults", "peak_wset", "wset", "peak_paged_pool", "paged_pool",
        "peak_non_paged_pool", "non_paged_pool", "pagefile", "peak_pagefile", "mem_private">>) @@
  \* psutil/arch/windows/proc.c psutil_proc_memory_info: "(kKKKKKKKKK)"
  ("windows.proc_memory_info" :>
      <<"num_page_faults", "peak_wset", "wset", "peak_paged_pool", "paged_pool",
        "peak_non_paged_pool", "non_paged_pool", "pagefile", "peak_pagefile", "mem_private">>) @@
  ("windows.proc_times"       :> <<"user", "kernel", "create">>) @@                 \* "(ddd)"
  ("windows.proc_io_counters" :> <<"rcount", "wcount", "rbytes", "wbytes", "ocount", "obytes">>) @@
  ("windows.proc_threads"     :> <<"id", "utime", "stime">>) @@                     \* "kdd"
  ("windows.proc_memory_uss"  :> <<"uss">>) @@
  ("windows.proc_num_handles" :> <<"count">>)

\* functions of the tables above that hand back a bare value, not a tuple
ScalarFns == {"osx.proc_memory_uss", "sunos.proc_cpu_num", "windows.proc_memory_uss",
              "windows.proc_num_handles"}
\* functions that hand back a list of such tuples
ListFns == {"bsd.proc_threads", "bsd.proc_open_files", "osx.proc_threads", "osx.proc_open_files",
            "aix.proc_threads", "windows.proc_threads"}

Has(seq, x) == \E i \in 1..Len(seq) : seq[i] = x
Pos(seq, x) == CHOOSE i \in 1..Len(seq) : seq[i] = x
Key(p, fn)  == Family(p) \o "." \o fn

(* ------------------------------------------------------------------------ *)
(* Documented named tuples and where each field comes from                  *)
(* ------------------------------------------------------------------------ *)

S(fn, slot)     == [kind |-> "slot",  fn |-> fn, slot |-> slot, mul |-> 1, val |-> 0]
SK(fn, slot, k) == [kind |-> "slot",  fn |-> fn, slot |-> slot, mul |-> k, val |-> 0]
C(v)            == [kind |-> "const", fn |-> "", slot |-> "", mul |-> 1, val |-> v]
NoneV           == [kind |-> "none",  fn |-> "", slot |-> "", mul |-> 1, val |-> 0]
AnyV            == [kind |-> "any",   fn |-> "", slot |-> "", mul |-> 1, val |-> 0]

NT(nt, many, fields, src, alt) == [nt |-> nt, many |-> many, fields |-> fields, src |-> src, alt |-> alt]
Scalar(src)         == NT("", FALSE, <<"value">>, <<src>>, <<>>)
ScalarAlt(src, alt) == NT("", FALSE, <<"value">>, <<src>>, <<alt>>)
NoLayout == NT("-", FALSE, <<>>, <<>>, <<>>)

PAGESIZE == 4096      \* what the stub getpagesize() answers
RES == <<"real", "effective", "saved">>
CPUT == <<"user", "system", "children_user", "children_system">>
WinMemFields == <<"num_page_faults", "peak_wset", "wset", "peak_paged_pool", "paged_pool",
                  "peak_nonpaged_pool", "nonpaged_pool", "pagefile", "peak_pagefile", "private">>
WinMemSlots  == <<"num_page_faults", "peak_wset", "wset", "peak_paged_pool", "paged_pool",
                  "peak_non_paged_pool", "non_paged_pool", "pagefile", "peak_pagefile", "mem_private">>
WinMem(fn) == <<S(fn, "wset"), S(fn, "pagefile")>> \o [i \in 1..10 |-> S(fn, WinMemSlots[i])]

BsdLayout(p, m) ==
    LET O == "proc_oneshot_info" IN
    CASE m = "uids" -> NT("puids", FALSE, RES, <<S(O, "real_uid"), S(O, "effective_uid"), S(O, "saved_uid")>>, <<>>)
      [] m = "gids" -> NT("pgids", FALSE, RES, <<S(O, "real_gid"), S(O, "effective_gid"), S(O, "saved_gid")>>, <<>>)
      [] m = "cpu_times" -> NT("pcputimes", FALSE, CPUT,
                               <<S(O, "user_time"), S(O, "sys_time"), S(O, "ch_user_time"), S(O, "ch_sys_time")>>, <<>>)
      [] m \in {"memory_info", "memory_full_info"} ->
            NT("pmem", FALSE, <<"rss", "vms", "text", "data", "stack">>,
               <<S(O, "rss"), S(O, "vms"), S(O, "memtext"), S(O, "memdata"), S(O, "memstack")>>, <<>>)
      [] m = "num_ctx_switches" -> NT("pctxsw", FALSE, <<"voluntary", "involuntary">>,
                                      <<S(O, "ctx_vol"), S(O, "ctx_unvol")>>, <<>>)
      [] m = "io_counters" -> NT("pio", FALSE, <<"read_count", "write_count", "read_bytes", "write_bytes">>,
                                 <<S(O, "read_io_count"), S(O, "write_io_count"), C(-1), C(-1)>>, <<>>)
      [] m = "threads" -> NT("pthread", TRUE, <<"id", "user_time", "system_time">>,
                             <<S("proc_threads", "id"), S("proc_threads", "utime"), S("proc_threads", "stime")>>, <<>>)
      [] m = "open_files" -> NT("popenfile", TRUE, <<"path", "fd">>,
                                <<S("proc_open_files", "path"), S("proc_open_files", "fd")>>, <<>>)
      [] m = "ppid" -> Scalar(S(O, "ppid"))
      [] m = "create_time" -> Scalar(S(O, "create_time"))
      [] m = "name" -> Scalar(S(O, "name"))
      [] m = "cpu_num" /\ p = "freebsd" -> Scalar(S(O, "cpunum"))
      [] OTHER -> NoLayout

OsxLayout(m) ==
    LET K == "proc_kinfo_oneshot"  T == "proc_pidtaskinfo_oneshot" IN
    CASE m = "uids" -> NT("puids", FALSE, RES, <<S(K, "ruid"), S(K, "euid"), S(K, "suid")>>, <<>>)
      [] m = "gids" -> NT("pgids", FALSE, RES, <<S(K, "rgid"), S(K, "egid"), S(K, "sgid")>>, <<>>)
      [] m = "cpu_times" -> NT("pcputimes", FALSE, CPUT, <<S(T, "cpuutime"), S(T, "cpustime"), C(0), C(0)>>, <<>>)
      [] m = "memory_info" -> NT("pmem", FALSE, <<"rss", "vms", "pfaults", "pageins">>,
                                 <<S(T, "rss"), S(T, "vms"), S(T, "pfaults"), S(T, "pageins")>>, <<>>)
      [] m = "memory_full_info" -> NT("pfullmem", FALSE, <<"rss", "vms", "pfaults", "pageins", "uss">>,
                                      <<S(T, "rss"), S(T, "vms"), S(T, "pfaults"), S(T, "pageins"),
                                        S("proc_memory_uss", "uss")>>, <<>>)
      [] m = "num_ctx_switches" -> NT("pctxsw", FALSE, <<"voluntary", "involuntary">>, <<S(T, "volctxsw"), C(0)>>, <<>>)
      [] m = "threads" -> NT("pthread", TRUE, <<"id", "user_time", "system_time">>,
                             <<S("proc_threads", "id"), S("proc_threads", "utime"), S("proc_threads", "stime")>>, <<>>)
      [] m = "open_files" -> NT("popenfile", TRUE, <<"path", "fd">>,
                                <<S("proc_open_files", "path"), S("proc_open_files", "fd")>>, <<>>)
      [] m = "ppid" -> Scalar(S(K, "ppid"))
      [] m = "create_time" -> Scalar(S(K, "ctime"))
      [] m = "name" -> Scalar(S(K, "name"))
      [] m = "num_threads" -> Scalar(S(T, "numthreads"))
      [] OTHER -> NoLayout

\* SunOS and AIX share the psinfo / cred / usage record shapes
ProcfsLayout(p, m) ==
    LET B == "proc_basic_info"  Cr == "proc_cred"  T == "proc_cpu_times"  X == "proc_num_ctx_switches" IN
    CASE m = "uids" -> NT("puids", FALSE, RES, <<S(Cr, "ruid"), S(Cr, "euid"), S(Cr, "suid")>>,
                          IF p = "sunos" THEN <<S(B, "uid"), S(B, "euid"), NoneV>> ELSE <<>>)
      [] m = "gids" -> NT("pgids", FALSE, RES, <<S(Cr, "rgid"), S(Cr, "egid"), S(Cr, "sgid")>>,
                          IF p = "sunos" THEN <<S(B, "gid"), S(B, "egid"), NoneV>> ELSE <<>>)
      [] m = "cpu_times" -> NT("pcputimes", FALSE, CPUT,
                               <<S(T, "utime"), S(T, "stime"), S(T, "cutime"), S(T, "cstime")>>, <<>>)
      [] m \in {"memory_info", "memory_full_info"} ->
            NT("pmem", FALSE, <<"rss", "vms">>, <<SK(B, "rss", 1024), SK(B, "vms", 1024)>>, <<>>)   \* psinfo sizes are in KiB
      [] m = "num_ctx_switches" ->
            NT("pctxsw", FALSE, <<"voluntary", "involuntary">>,
               IF p = "sunos" THEN <<S(X, "vctx"), S(X, "ictx")>> ELSE <<S(X, "nvcsw"), S(X, "nivcsw")>>, <<>>)
      [] m = "io_counters" /\ p = "aix" ->
            NT("pio", FALSE, <<"read_count", "write_count", "read_bytes", "write_bytes">>,
               <<S("proc_io_counters", "inOps"), S("proc_io_counters", "outOps"),
                 S("proc_io_counters", "inBytes"), S("proc_io_counters", "outBytes")>>, <<>>)
      [] m = "threads" /\ p = "aix" ->
            NT("pthread", TRUE, <<"id", "user_time", "system_time">>,
               <<S("proc_threads", "tid"), S("proc_threads", "ucpu"), S("proc_threads", "scpu")>>, <<>>)
      [] m = "threads" /\ p = "sunos" ->     \* the id comes from the lwp directory listing
            NT("pthread", TRUE, <<"id", "user_time", "system_time">>,
               <<AnyV, S("query_process_thread", "utime"), S("query_process_thread", "stime")>>, <<>>)
      [] m = "ppid" -> Scalar(S(B, "ppid"))
      [] m = "create_time" -> Scalar(S(B, "create_time"))
      [] m = "num_threads" -> Scalar(S(B, "num_threads"))
      [] m = "nice_get" /\ p = "sunos" -> Scalar(S(B, "nice"))
      [] m = "cpu_num" /\ p = "sunos" -> Scalar(S("proc_cpu_num", "cpu"))
      [] m = "name" /\ p = "sunos" -> Scalar(S("proc_name_and_args", "name"))
      [] OTHER -> NoLayout

WinLayout(m) ==
    LET I == "proc_info"  M == "proc_memory_info"  T == "proc_times"  IO == "proc_io_counters" IN
    CASE m = "memory_info" -> NT("pmem", FALSE, <<"rss", "vms">> \o WinMemFields, WinMem(M), WinMem(I))
      [] m = "memory_full_info" ->
            NT("pfullmem", FALSE, <<"rss", "vms">> \o WinMemFields \o <<"uss">>,
               WinMem(M) \o <<SK("proc_memory_uss", "uss", PAGESIZE)>>,
               WinMem(I) \o <<SK("proc_memory_uss", "uss", PAGESIZE)>>)
      [] m = "cpu_times" -> NT("pcputimes", FALSE, CPUT, <<S(T, "user"), S(T, "kernel"), C(0), C(0)>>,
                               <<S(I, "user_time"), S(I, "kernel_time"), C(0), C(0)>>)
      [] m = "io_counters" ->
            NT("pio", FALSE, <<"read_count", "write_count", "read_bytes", "write_bytes", "other_count", "other_bytes">>,
               <<S(IO, "rcount"), S(IO, "wcount"), S(IO, "rbytes"), S(IO, "wbytes"), S(IO, "ocount"), S(IO, "obytes")>>,
               <<S(I, "io_rcount"), S(I, "io_wcount"), S(I, "io_rbytes"), S(I, "io_wbytes"),
                 S(I, "io_count_others"), S(I, "io_bytes_others")>>)
      [] m = "num_ctx_switches" -> NT("pctxsw", FALSE, <<"voluntary", "involuntary">>, <<S(I, "ctx_switches"), C(0)>>, <<>>)
      [] m = "threads" -> NT("pthread", TRUE, <<"id", "user_time", "system_time">>,
                             <<S("proc_threads", "id"), S("proc_threads", "utime"), S("proc_threads", "stime")>>, <<>>)
      [] m = "create_time" -> ScalarAlt(S(T, "create"), S(I, "create_time"))
      [] m = "num_handles" -> ScalarAlt(S("proc_num_handles", "count"), S(I, "num_handles"))
      [] m = "num_threads" -> Scalar(S(I, "num_threads"))
      [] OTHER -> NoLayout

Layout(p, m) ==
    IF p \in BSDs THEN BsdLayout(p, m)
    ELSE IF p = "macos" THEN OsxLayout(m)
    ELSE IF p \in Procfs THEN ProcfsLayout(p, m)
    ELSE WinLayout(m)

HasLayout(p, m) == Layout(p, m).nt # "-"
HasAlt(p, m)    == Layout(p, m).alt # <<>>

Resolvable(p, s) == s.kind = "slot" => (Key(p, s.fn) \in DOMAIN Slots /\ Has(Slots[Key(p, s.fn)], s.slot))
Resolve(p, s) == IF s.kind = "slot"
                 THEN [s EXCEPT !.fn = Key(p, s.fn), !.val = Pos(Slots[Key(p, s.fn)], s.slot)]
                 ELSE s
ResolveSeq(p, q) == [i \in 1..Len(q) |-> Resolve(p, q[i])]

(* ------------------------------------------------------------------------ *)
(* Native function tables (what the stub C extension of a platform offers)  *)
(* from the PyMethodDef tables of psutil/_psutil_<platform>.c               *)
(* ------------------------------------------------------------------------ *)

BsdCommonFns == {"proc_cmdline", "proc_name", "proc_oneshot_info", "proc_threads", "proc_cwd",
                 "proc_num_fds", "proc_open_files", "proc_environ", "boot_time", "cpu_count_logical",
                 "cpu_stats", "cpu_times", "disk_io_counters", "disk_partitions", "net_connections",
                 "net_io_counters", "per_cpu_times", "pids", "swap_mem", "users", "virtual_mem",
                 "check_pid_range", "set_debug"}
NativeFns(p) ==
    CASE p = "freebsd" -> BsdCommonFns \cup {"proc_net_connections", "proc_num_threads", "cpu_topology",
                            "proc_cpu_affinity_get", "proc_cpu_affinity_set", "proc_exe", "proc_getrlimit",
                            "proc_memory_maps", "proc_setrlimit", "cpu_freq", "sensors_battery",
                            "sensors_cpu_temperature"}
      [] p = "openbsd" -> BsdCommonFns \cup {"cpu_freq"}
      [] p = "netbsd"  -> BsdCommonFns \cup {"proc_num_threads"}
      [] p = "macos"   -> {"proc_cmdline", "proc_net_connections", "proc_cwd", "proc_environ", "proc_exe",
                           "proc_kinfo_oneshot", "proc_memory_uss", "proc_name", "proc_num_fds",
                           "proc_open_files", "proc_pidtaskinfo_oneshot", "proc_threads", "boot_time",
                           "cpu_count_cores", "cpu_count_logical", "cpu_freq", "cpu_stats", "cpu_times",
                           "disk_io_counters", "disk_partitions", "disk_usage_used", "net_io_counters",
                           "per_cpu_times", "pids", "sensors_battery", "swap_mem", "users", "virtual_mem",
                           "check_pid_range", "set_debug"}
      [] p = "sunos"   -> {"proc_basic_info", "proc_cpu_num", "proc_cpu_times", "proc_cred", "proc_environ",
                           "proc_memory_maps", "proc_name_and_args", "proc_num_ctx_switches",
                           "query_process_thread", "boot_time", "cpu_count_cores", "cpu_stats",
                           "disk_io_counters", "disk_partitions", "net_connections", "net_if_stats",
                           "net_io_counters", "per_cpu_times", "swap_mem", "users", "check_pid_range",
                           "set_debug"}
      [] p = "aix"     -> {"proc_args", "proc_basic_info", "proc_cpu_times", "proc_cred", "proc_environ",
                           "proc_name", "proc_threads", "proc_io_counters", "proc_num_ctx_switches",
                           "boot_time", "disk_io_counters", "disk_partitions", "per_cpu_times", "swap_mem",
                           "users", "virtual_mem", "net_io_counters", "cpu_stats", "net_connections",
                           "net_if_stats", "check_pid_range", "set_debug"}
      [] p = "windows" -> {"proc_cmdline", "proc_cpu_affinity_get", "proc_cpu_affinity_set", "proc_cwd",
                           "proc_environ", "proc_exe", "proc_io_counters", "proc_io_priority_get",
                           "proc_io_priority_set", "proc_is_suspended", "proc_kill", "proc_memory_info",
                           "proc_memory_maps", "proc_memory_uss", "proc_num_handles", "proc_open_files",
                           "proc_priority_get", "proc_priority_set", "proc_suspend_or_resume",
                           "proc_threads", "proc_times", "proc_username", "proc_wait", "proc_info",
                           "boot_time", "cpu_count_cores", "cpu_count_logical", "cpu_freq", "cpu_stats",
                           "cpu_times", "disk_io_counters", "disk_partitions", "disk_usage", "getloadavg",
                           "getpagesize", "swap_percent", "init_loadavg_counter", "net_connections",
                           "net_if_addrs", "net_if_stats", "net_io_counters", "per_cpu_times", "pid_exists",
                           "pids", "ppid_map", "sensors_battery", "users", "virtual_mem",
                           "winservice_enumerate", "winservice_query_config", "winservice_query_descr",
                           "winservice_query_status", "QueryDosDevice", "check_pid_range", "set_debug"}

PosixFns == {"getpagesize", "getpriority", "net_if_addrs", "net_if_flags", "net_if_is_running",
             "net_if_mtu", "setpriority", "net_if_duplex_speed"}

(* ------------------------------------------------------------------------ *)
(* Names the documentation promises per platform (docs/index.rst)           *)
(* "Process.x" stands for the method x of psutil.Process                    *)
(* ------------------------------------------------------------------------ *)

CommonExports ==
   {"Error", "NoSuchProcess", "ZombieProcess", "AccessDenied", "TimeoutExpired", "Process", "Popen",
    "pid_exists", "pids", "process_iter", "wait_procs", "virtual_memory", "swap_memory", "cpu_times",
    "cpu_percent", "cpu_times_percent", "cpu_count", "cpu_stats", "getloadavg", "net_io_counters",
    "net_connections", "net_if_addrs", "net_if_stats", "disk_io_counters", "disk_partitions",
    "disk_usage", "users", "boot_time", "version_info",
    "POSIX", "LINUX", "WINDOWS", "MACOS", "OSX", "FREEBSD", "NETBSD", "OPENBSD", "BSD", "SUNOS", "AIX",
    "STATUS_RUNNING", "STATUS_SLEEPING", "STATUS_DISK_SLEEP", "STATUS_STOPPED", "STATUS_TRACING_STOP",
    "STATUS_ZOMBIE", "STATUS_DEAD", "STATUS_WAKING", "STATUS_PARKED", "STATUS_IDLE", "STATUS_LOCKED",
    "STATUS_WAITING",
    "CONN_ESTABLISHED", "CONN_SYN_SENT", "CONN_SYN_RECV", "CONN_FIN_WAIT1", "CONN_FIN_WAIT2",
    "CONN_TIME_WAIT", "CONN_CLOSE", "CONN_CLOSE_WAIT", "CONN_LAST_ACK", "CONN_LISTEN", "CONN_CLOSING",
    "CONN_NONE", "AF_LINK", "NIC_DUPLEX_FULL", "NIC_DUPLEX_HALF", "NIC_DUPLEX_UNKNOWN",
    "POWER_TIME_UNKNOWN", "POWER_TIME_UNLIMITED"}

RlimitCommon == {"RLIM_INFINITY", "RLIMIT_AS", "RLIMIT_CORE", "RLIMIT_CPU", "RLIMIT_DATA", "RLIMIT_FSIZE",
                 "RLIMIT_MEMLOCK", "RLIMIT_NOFILE", "RLIMIT_NPROC", "RLIMIT_RSS", "RLIMIT_STACK"}
RlimitFreeBSD == {"RLIMIT_SWAP", "RLIMIT_SBSIZE", "RLIMIT_NPTS"}
WinOnly == {"win_service_iter", "win_service_get", "REALTIME_PRIORITY_CLASS", "HIGH_PRIORITY_CLASS",
            "ABOVE_NORMAL_PRIORITY_CLASS", "NORMAL_PRIORITY_CLASS", "IDLE_PRIORITY_CLASS",
            "BELOW_NORMAL_PRIORITY_CLASS", "IOPRIO_VERYLOW", "IOPRIO_LOW", "IOPRIO_NORMAL", "IOPRIO_HIGH",
            "CONN_DELETE_TCB", "Process.num_handles"}
UnixOnly == {"Process.uids", "Process.gids", "Process.terminal", "Process.num_fds"}

Avail(name) ==     \* the "Availability:" notes, restricted to the non-Linux platforms
    CASE name = "cpu_freq"             -> {"macos", "windows", "freebsd", "openbsd"}
      [] name = "sensors_temperatures" -> {"freebsd"}
      [] name = "sensors_battery"      -> {"windows", "freebsd", "macos"}
      [] name = "PROCFS_PATH"          -> {"sunos", "aix"}
      [] name \in {"CONN_IDLE", "CONN_BOUND"} -> {"sunos"}
      [] name = "Process.ionice"       -> {"windows"}
      [] name = "Process.rlimit"       -> {"freebsd"}
      [] name = "Process.io_counters"  -> BSDs \cup {"windows", "aix"}
      [] name = "Process.cpu_affinity" -> {"windows", "freebsd"}
      [] name = "Process.cpu_num"      -> {"freebsd", "sunos"}
      [] name = "Process.memory_maps"  -> {"windows", "freebsd", "sunos"}
      [] name \in RlimitCommon \cup RlimitFreeBSD -> {"freebsd"}
      [] name \in WinOnly              -> {"windows"}
      [] name \in UnixOnly             -> Posix
      [] OTHER                         -> AllPlatforms

Conditional == {"cpu_freq", "sensors_temperatures", "sensors_battery", "PROCFS_PATH", "CONN_IDLE",
                "CONN_BOUND", "Process.ionice", "Process.rlimit", "Process.io_counters",
                "Process.cpu_affinity", "Process.cpu_num", "Process.memory_maps"}
                 \cup RlimitCommon \cup RlimitFreeBSD \cup WinOnly \cup UnixOnly
AllNames == CommonExports \cup Conditional
Exports(p) == {n \in AllNames : p \in Avail(n)}

(* ------------------------------------------------------------------------ *)
(* Rows                                                                      *)
(* ------------------------------------------------------------------------ *)

Pending == [pending |-> TRUE]

\* pid 5: an ordinary process, zombie or not (PID 0 listed, so that a PID 0
\* rule applied to the wrong PID is visible); pid 0: never a zombie, listed or not
PidCases == {<<5, TRUE, TRUE>>, <<5, FALSE, TRUE>>, <<0, FALSE, TRUE>>, <<0, FALSE, FALSE>>}
PidCasesOf(p) == IF p = "windows" THEN {c \in PidCases : ~c[2]} ELSE PidCases   \* no zombies on Windows

Row(k, p, m, e, site, c, mode) ==
    [k |-> k, p |-> p, m |-> m, e |-> e, site |-> site, z |-> c[2], pid |-> c[1], p0 |-> c[3], mode |-> mode]

ErrRows == UNION {{Row("err", p, m, e, s, c, "-") :
                      m \in Methods(p), e \in ErrSel \cap ErrorsOf(p), s \in 1..MaxSite, c \in PidCasesOf(p)}
                  : p \in Platforms}

LayoutRows == UNION {{Row("layout", p, m, "-", 0, <<5, FALSE, TRUE>>, mode) :
                        m \in {x \in Methods(p) : HasLayout(p, x)}, mode \in {"primary", "alt"}}
                     : p \in Platforms}
ValidLayout(r) == r.mode = "alt" => HasAlt(r.p, r.m)

PlatRows == {Row("platform", p, "-", "-", 0, <<5, FALSE, TRUE>>, "-") : p \in Platforms}

Rows == ErrRows \cup {r \in LayoutRows : ValidLayout(r)} \cup PlatRows

AllowedOf(r, kind) == Allowed(r.p, r.m, r.e, kind, r.z, r.pid, r.p0)

F(r) ==
    IF r.k = "err" THEN
        [k |-> "err", sys |-> AllowedOf(r, "sys"),
         procfs |-> AllowedOf(r, IF "procfs" \in KindsOf(r.p) THEN "procfs" ELSE "sys")]
    ELSE IF r.k = "layout" THEN
        LET L == Layout(r.p, r.m) IN
        [k |-> "layout", nt |-> L.nt, many |-> L.many, fields |-> L.fields,
         src |-> ResolveSeq(r.p, IF r.mode = "alt" THEN L.alt ELSE L.src)]
    ELSE
        [k |-> "platform", exports |-> Exports(r.p), methods |-> Methods(r.p),
         natives |-> NativeFns(r.p), posix |-> IF r.p = "windows" THEN {} ELSE PosixFns,
         family |-> Family(r.p),
         slots |-> [key \in {x \in DOMAIN Slots : \E fn \in NativeFns(r.p) : x = Key(r.p, fn)} |-> Slots[key]],
         scalars |-> ScalarFns, lists |-> ListFns, pagesize |-> PAGESIZE,
         pid0rule |-> r.p \in Pid0Rule, procfs |-> r.p \in Procfs,
         \* front-end post-processing of net_if_addrs(): an incomplete MAC address is
         \* padded to six groups with the platform's separator; on Windows (the native
         \* layer hands back no broadcast address) the IPv4/IPv6 broadcast is computed
         macsep |-> IF r.p = "windows" THEN "-" ELSE ":", macgroups |-> 6,
         computes_broadcast |-> r.p = "windows"]

Init == /\ inp \in Rows
        /\ out = Pending
        /\ ev = [op |-> "init"]

Observe == /\ out = Pending
           /\ out' = F(inp)
           /\ inp' = inp
           /\ ev' = [op |-> "observe", row |-> inp, out |-> F(inp)]

Next == Observe
Spec == Init /\ [][Next]_vars

(* ------------------------------------------------------------------------ *)
(* Meta-properties of the table, checked over every enumerated row          *)
(* ------------------------------------------------------------------------ *)

IsErr == inp.k = "err" /\ out # Pending
ForKinds(P(_)) == \A kind \in KindsOf(inp.p) : P(kind)

\* total: every row has an expectation and it is one of the four classes
Total == IsErr => ForKinds(LAMBDA kind : AllowedOf(inp, kind) # {} /\ AllowedOf(inp, kind) \subseteq Classes)

\* deterministic: exactly one class, except in the one contradictory input class
Deterministic == IsErr => ForKinds(LAMBDA kind :
    Cardinality(AllowedOf(inp, kind)) = IF Contradictory(inp.p, inp.e, kind, inp.z, inp.pid, inp.p0) THEN 2 ELSE 1)

\* never NoSuchProcess while the PID is still listed as a zombie
NoNSPWhileZombie == IsErr /\ inp.z => ForKinds(LAMBDA kind : "NoSuchProcess" \notin AllowedOf(inp, kind))

\* ZombieProcess only for a "no such process" failure of a PID that is still listed
ZombieOnlyIfListed == IsErr => ForKinds(LAMBDA kind :
    "ZombieProcess" \in AllowedOf(inp, kind) =>
        NoProcErr(inp.p, inp.e, kind) /\ (inp.z \/ (inp.pid = 0 /\ inp.p0)))

\* AccessDenied only for permission errors, except the documented PID 0 rule
ADOnlyForPermission == IsErr => ForKinds(LAMBDA kind :
    "AccessDenied" \in AllowedOf(inp, kind) =>
        \/ PermErr(inp.e)
        \/ inp.p \in Pid0Rule /\ inp.pid = 0 /\ inp.p0 /\ inp.e \in {"EIO", "EINVAL", "ENOENT"})

\* permission errors are always AccessDenied, whatever the platform, PID, zombie state
PermissionAlwaysAD == IsErr /\ PermErr(inp.e) => ForKinds(LAMBDA kind : AllowedOf(inp, kind) = {"AccessDenied"})

\* the contract does not depend on the method
MethodIndependent == IsErr => \A m2 \in Methods(inp.p) : ForKinds(LAMBDA kind :
    Allowed(inp.p, m2, inp.e, kind, inp.z, inp.pid, inp.p0) = AllowedOf(inp, kind))

\* the contract is the same on every platform outside the two documented
\* platform-dependent clauses (procfs ENOENT, PID 0 rule)
PlatformIndependent == IsErr /\ inp.e # "ENOENT" /\ inp.pid # 0 =>
    \A q \in Posix : inp.e \in ErrorsOf(q) =>
        ForKinds(LAMBDA kind : Allowed(q, inp.m, inp.e, kind, inp.z, inp.pid, inp.p0) = AllowedOf(inp, kind))

NoZombieOnWindows == IsErr /\ inp.p = "windows" => ForKinds(LAMBDA kind : "ZombieProcess" \notin AllowedOf(inp, kind))

\* layout: every field has exactly one source, every source names an existing
\* slot of a native function the platform really has, and no two fields of one
\* tuple read the same slot (so a swapped index is observable with distinct
\* slot values) -- except Windows rss/vms which are documented aliases of
\* wset/pagefile
LayoutRow == inp.k = "layout" /\ out # Pending
SrcOf(r) == LET L == Layout(r.p, r.m) IN IF r.mode = "alt" THEN L.alt ELSE L.src
LayoutTotal == LayoutRow =>
    LET L == Layout(inp.p, inp.m)  q == SrcOf(inp) IN
    /\ Len(q) = Len(L.fields)
    /\ \A i \in 1..Len(q) : /\ Resolvable(inp.p, q[i])
                            /\ q[i].kind = "slot" => q[i].fn \in NativeFns(inp.p)
LayoutInjective == LayoutRow =>
    LET q == SrcOf(inp) IN
    \A i, j \in 1..Len(q) :
        (i < j /\ q[i].kind = "slot" /\ q[j].kind = "slot" /\ q[i].fn = q[j].fn /\ q[i].slot = q[j].slot)
            => (inp.p = "windows" /\ i \in {1, 2})
FieldsDistinct == LayoutRow =>
    LET f == Layout(inp.p, inp.m).fields IN \A i, j \in 1..Len(f) : i # j => f[i] # f[j]
SlotNamesDistinct == \A key \in DOMAIN Slots :
    \A i, j \in 1..Len(Slots[key]) : i # j => Slots[key][i] # Slots[key][j]

\* exports: Windows-only names are promised nowhere else, UNIX-only names not on
\* Windows, every platform is promised the common API
PlatRow == inp.k = "platform" /\ out # Pending
ExportsSane == PlatRow =>
    /\ CommonExports \subseteq Exports(inp.p)
    /\ (inp.p # "windows" => Exports(inp.p) \cap WinOnly = {})
    /\ (inp.p = "windows" => Exports(inp.p) \cap UnixOnly = {})
    /\ \A key \in DOMAIN Slots : \E q \in AllPlatforms : \E fn \in NativeFns(q) : key = Key(q, fn)

DumpL == PrintT(<<"TR", ToJson(<<inp, out>>), ToJson(ev'), ToJson(<<inp', out'>>), TLCGet("level")>>)
=============================================================================

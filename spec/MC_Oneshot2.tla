---- MODULE MC_Oneshot2 ----
EXTENDS Oneshot
ThreadsDef == {"A", "B"}
ProgDef == [A |-> <<"enter", "enter", "mP", "exit", "mF", "raise", "mP">>, B |-> <<"mP", "mF">>]
====

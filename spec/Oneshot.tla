------------------------------- MODULE Oneshot -------------------------------
(***************************************************************************)
(* C16 -- Process.oneshot() and the memoize_when_activated wrapper, at     *)
(* statement granularity, with several threads on one Process object.      *)
(*                                                                         *)
(* Two cache dicts exist: F on the psutil.Process object (front-end        *)
(* methods cpu_times, memory_info, ppid, uids) and P on the platform       *)
(* object (_parse_stat_file, _read_status_file, _read_smaps_file).  A call *)
(* of a front+platform method (mF, e.g. cpu_times) runs the wrapper twice: *)
(* F layer around a body whose source access goes through the P layer.  A  *)
(* platform-only method (mP, e.g. cpu_num) runs the P layer only.          *)
(*                                                                         *)
(* Wrapper (psutil/_common.py):   try: ret = self._cache[fun]              *)
(*   except AttributeError: return fun(self)          (no cache: plain)    *)
(*   except KeyError: ret = fun(self);                                     *)
(*       try: self._cache[fun] = ret  except AttributeError: pass          *)
(* oneshot(): with lock: if hasattr(_cache): yield (nested no-op) else     *)
(*   4 x `self._cache = {}`, 3 x `_proc._cache = {}`, yield, finally       *)
(*   4 x del self._cache (tolerant), 3 x del _proc._cache (tolerant).      *)
(*                                                                         *)
(* The source (one /proc file) has a version counter bumped by kernel      *)
(* events; a read returns the current version.                             *)
(***************************************************************************)
EXTENDS Naturals, Integers, Sequences, FiniteSets, TLC

CONSTANTS Threads,    \* e.g. {"A", "B"}
          Prog,       \* [Threads -> sequence of ops]; ops: "enter","exit","mF","mP","raise"
          MaxVer,     \* bound on version bumps
          Guard       \* TRUE: the `except AttributeError` around the store exists (issue 1948)

VARIABLES ver,       \* source version
          F, P,      \* caches: [on : BOOLEAN, has : BOOLEAN, val : Nat]  (one key each)
          owner, depth,   \* the RLock of oneshot()
          blocks,    \* per thread: stack of "real" / "noop" blocks entered
          pcs,       \* per thread: program counter record
          ip,        \* per thread: index into Prog
          qfloor,    \* ghost: version at the last quiescent instant
          interf,    \* ghost: a foreign call overlapped the current block
          blk,       \* ghost: [first : version first read in the block | -1, reads : Nat]
          ev

vars == <<ver, F, P, owner, depth, blocks, pcs, ip, qfloor, interf, blk, ev>>
view == <<ver, F, P, owner, depth, blocks, pcs, ip, qfloor, interf, blk>>

Off == [on |-> FALSE, has |-> FALSE, val |-> 0]
Idle == [at |-> "idle"]

InFlight(t) == pcs[t].at \notin {"idle"}
BlockActive == \E t \in Threads : blocks[t] # <<>>
Quiescent == ~BlockActive /\ \A t \in Threads : ~InFlight(t)

Init == /\ ver = 0 /\ F = Off /\ P = Off /\ owner = "-" /\ depth = 0
        /\ blocks = [t \in Threads |-> <<>>]
        /\ pcs = [t \in Threads |-> Idle]
        /\ ip = [t \in Threads |-> 1]
        /\ qfloor = 0 /\ interf = FALSE /\ blk = [first |-> -1, reads |-> 0]
        /\ ev = [op |-> "init"]

Op(t) == Prog[t][ip[t]]
HasOp(t) == ip[t] <= Len(Prog[t])

\* ghost bookkeeping applied by every action through its primed values
Ghost(quiet) == qfloor' = IF quiet THEN ver' ELSE qfloor

Bump == /\ ver < MaxVer /\ ver' = ver + 1
        /\ qfloor' = IF Quiescent THEN ver + 1 ELSE qfloor
        /\ ev' = [op |-> "bump"]
        /\ UNCHANGED <<F, P, owner, depth, blocks, pcs, ip, interf, blk>>

(* ---------------- method calls ------------------------------------------ *)
\* call start: first statement of the outermost wrapper
CallStart(t) ==
  /\ pcs[t].at = "idle" /\ HasOp(t) /\ Op(t) \in {"mF", "mP"}
  /\ pcs' = [pcs EXCEPT ![t] = [at |-> IF Op(t) = "mF" THEN "F_look" ELSE "P_look",
                                m |-> Op(t), floor |-> IF Quiescent THEN ver ELSE qfloor,
                                fmiss |-> FALSE, pmiss |-> FALSE, val |-> -1, inblk |-> blocks[t] # <<>>]]
  /\ interf' = (interf \/ (BlockActive /\ blocks[t] = <<>>))
  /\ ev' = [op |-> "call_start", t |-> t, m |-> Op(t)]
  /\ UNCHANGED <<ver, F, P, owner, depth, blocks, ip, qfloor, blk>>

\* F layer: try: ret = self._cache[fun]
FLook(t) ==
  /\ pcs[t].at = "F_look"
  /\ IF F.on /\ F.has
       THEN pcs' = [pcs EXCEPT ![t].at = "ret", ![t].val = F.val]
       ELSE pcs' = [pcs EXCEPT ![t].at = "P_look", ![t].fmiss = F.on]   \* KeyError vs AttributeError
  /\ ev' = [op |-> "f_look", t |-> t]
  /\ UNCHANGED <<ver, F, P, owner, depth, blocks, ip, qfloor, interf, blk>>

\* P layer lookup (inside the F body, or directly for mP)
PLook(t) ==
  /\ pcs[t].at = "P_look"
  /\ IF P.on /\ P.has
       THEN pcs' = [pcs EXCEPT ![t].at = IF pcs[t].m = "mF" THEN "F_store" ELSE "ret", ![t].val = P.val]
       ELSE pcs' = [pcs EXCEPT ![t].at = "P_read", ![t].pmiss = P.on]
  /\ ev' = [op |-> "p_look", t |-> t]
  /\ UNCHANGED <<ver, F, P, owner, depth, blocks, ip, qfloor, interf, blk>>

\* the source is read
PRead(t) ==
  /\ pcs[t].at = "P_read"
  /\ pcs' = [pcs EXCEPT ![t].at = "P_store", ![t].val = ver]
  /\ blk' = IF blocks[t] # <<>>
              THEN [first |-> IF blk.first = -1 THEN ver ELSE blk.first, reads |-> blk.reads + 1]
              ELSE blk
  /\ ev' = [op |-> "read", t |-> t, v |-> ver]
  /\ UNCHANGED <<ver, F, P, owner, depth, blocks, ip, qfloor, interf>>

\* self._cache[fun] = ret on the platform object (only after a KeyError)
PStore(t) ==
  /\ pcs[t].at = "P_store"
  /\ IF pcs[t].pmiss
       THEN IF P.on THEN P' = [P EXCEPT !.has = TRUE, !.val = pcs[t].val] /\ pcs' = [pcs EXCEPT ![t].at = IF pcs[t].m = "mF" THEN "F_store" ELSE "ret"]
            ELSE IF Guard THEN P' = P /\ pcs' = [pcs EXCEPT ![t].at = IF pcs[t].m = "mF" THEN "F_store" ELSE "ret"]
            ELSE P' = P /\ pcs' = [pcs EXCEPT ![t].at = "ret", ![t].val = -2]      \* AttributeError escapes
       ELSE P' = P /\ pcs' = [pcs EXCEPT ![t].at = IF pcs[t].m = "mF" THEN "F_store" ELSE "ret"]
  /\ ev' = [op |-> "p_store", t |-> t]
  /\ UNCHANGED <<ver, F, owner, depth, blocks, ip, qfloor, interf, blk>>

FStore(t) ==
  /\ pcs[t].at = "F_store"
  /\ IF pcs[t].fmiss
       THEN IF F.on THEN F' = [F EXCEPT !.has = TRUE, !.val = pcs[t].val] /\ pcs' = [pcs EXCEPT ![t].at = "ret"]
            ELSE IF Guard THEN F' = F /\ pcs' = [pcs EXCEPT ![t].at = "ret"]
            ELSE F' = F /\ pcs' = [pcs EXCEPT ![t].at = "ret", ![t].val = -2]
       ELSE F' = F /\ pcs' = [pcs EXCEPT ![t].at = "ret"]
  /\ ev' = [op |-> "f_store", t |-> t]
  /\ UNCHANGED <<ver, P, owner, depth, blocks, ip, qfloor, interf, blk>>

CallRet(t) ==
  /\ pcs[t].at = "ret"
  /\ pcs' = [pcs EXCEPT ![t] = Idle]
  /\ ip' = [ip EXCEPT ![t] = @ + 1]
  /\ qfloor' = IF ~BlockActive /\ \A u \in Threads \ {t} : ~InFlight(u) THEN ver ELSE qfloor
  /\ ev' = [op |-> "call_ret", t |-> t, m |-> pcs[t].m, val |-> pcs[t].val, floor |-> pcs[t].floor,
            ver |-> ver, inblk |-> pcs[t].inblk, interf |-> interf, first |-> blk.first,
            reads |-> blk.reads]
  /\ UNCHANGED <<ver, F, P, owner, depth, blocks, interf, blk>>

(* ---------------- oneshot() ---------------------------------------------- *)
\* `with self._lock` + hasattr test + activations; modelled as: Lock, then
\* (nested ? no-op : seven re-creations of the two dicts, one per step)
EnterLock(t) ==
  /\ pcs[t].at = "idle" /\ HasOp(t) /\ Op(t) = "enter"
  /\ owner \in {"-", t}
  /\ owner' = t /\ depth' = depth + 1
  /\ IF F.on
       THEN /\ blocks' = [blocks EXCEPT ![t] = Append(@, "noop")]
            /\ ip' = [ip EXCEPT ![t] = @ + 1]
            /\ pcs' = pcs
            /\ UNCHANGED <<interf, blk>>
       ELSE /\ pcs' = [pcs EXCEPT ![t] = [at |-> "act", k |-> 1]]
            /\ blocks' = [blocks EXCEPT ![t] = Append(@, "real")]
            /\ interf' = \E u \in Threads \ {t} : InFlight(u)
            /\ blk' = [first |-> -1, reads |-> 0]
            /\ ip' = ip
  /\ ev' = [op |-> "enter", t |-> t, nested |-> F.on]
  /\ UNCHANGED <<ver, F, P, qfloor>>

\* activation k: 1..4 re-create F, 5..7 re-create P
Activate(t) ==
  /\ pcs[t].at = "act"
  /\ LET k == pcs[t].k IN
     /\ IF k <= 4 THEN F' = [on |-> TRUE, has |-> FALSE, val |-> 0] /\ P' = P
                  ELSE P' = [on |-> TRUE, has |-> FALSE, val |-> 0] /\ F' = F
     /\ IF k = 7 THEN pcs' = [pcs EXCEPT ![t] = Idle] /\ ip' = [ip EXCEPT ![t] = @ + 1]
                 ELSE pcs' = [pcs EXCEPT ![t].k = k + 1] /\ ip' = ip
  /\ ev' = [op |-> "activate", t |-> t]
  /\ UNCHANGED <<ver, owner, depth, blocks, qfloor, interf, blk>>

\* leaving the block (normally, or because the body raised): the `finally`
ExitStart(t) ==
  /\ pcs[t].at = "idle" /\ HasOp(t) /\ Op(t) \in {"exit", "raise"} /\ blocks[t] # <<>>
  /\ IF blocks[t][Len(blocks[t])] = "noop"
       THEN /\ blocks' = [blocks EXCEPT ![t] = SubSeq(@, 1, Len(@) - 1)]
            /\ depth' = depth - 1 /\ owner' = IF depth = 1 THEN "-" ELSE owner
            /\ ip' = [ip EXCEPT ![t] = @ + 1] /\ pcs' = pcs
       ELSE /\ pcs' = [pcs EXCEPT ![t] = [at |-> "deact", k |-> 1]]
            /\ UNCHANGED <<blocks, depth, owner, ip>>
  /\ ev' = [op |-> "exit_start", t |-> t]
  /\ UNCHANGED <<ver, F, P, qfloor, interf, blk>>

Deactivate(t) ==
  /\ pcs[t].at = "deact"
  /\ LET k == pcs[t].k IN
     /\ IF k <= 4 THEN F' = Off /\ P' = P ELSE P' = Off /\ F' = F
     /\ IF k = 7
          THEN /\ pcs' = [pcs EXCEPT ![t] = Idle] /\ ip' = [ip EXCEPT ![t] = @ + 1]
               /\ blocks' = [blocks EXCEPT ![t] = SubSeq(@, 1, Len(@) - 1)]
               /\ depth' = depth - 1 /\ owner' = IF depth = 1 THEN "-" ELSE owner
               /\ qfloor' = IF Len(blocks[t]) = 1 /\ (\A u \in Threads \ {t} : ~InFlight(u) /\ blocks[u] = <<>>)
                              THEN ver ELSE qfloor
          ELSE /\ pcs' = [pcs EXCEPT ![t].k = k + 1]
               /\ UNCHANGED <<ip, blocks, depth, owner, qfloor>>
  /\ ev' = [op |-> "deactivate", t |-> t]
  /\ UNCHANGED <<ver, interf, blk>>

Next == \/ Bump
        \/ \E t \in Threads : \/ CallStart(t) \/ FLook(t) \/ PLook(t) \/ PRead(t) \/ PStore(t)
                              \/ FStore(t) \/ CallRet(t)
                              \/ EnterLock(t) \/ Activate(t) \/ ExitStart(t) \/ Deactivate(t)

Spec == Init /\ [][Next]_vars

(* ---------------- properties -------------------------------------------- *)
IsRet == ev'.op = "call_ret"

\* a call never raises anything the source did not produce
C16_NoSpuriousError == [][IsRet => ev'.val # -2]_vars

\* the value was valid at some moment between the last quiescent instant
\* before the call and its return
C16_VersionWindow == [][(IsRet /\ ev'.val # -2) => (ev'.floor <= ev'.val /\ ev'.val <= ev'.ver)]_vars

\* inside a block no other thread interfered with: every method returns the
\* version first read in the block, and the source is read at most once
C16_BlockSnapshot == [][(IsRet /\ ev'.inblk /\ ~ev'.interf) => ev'.val = ev'.first]_vars
C16_AtMostOneRead == [][(IsRet /\ ev'.inblk /\ ~ev'.interf) => ev'.reads <= 1]_vars

\* structural: caches exist only while a real block is open or being torn down
CachesOnlyInBlock == (~BlockActive) => (~F.on /\ ~P.on)

TypeOK == ver \in 0..MaxVer /\ depth \in 0..4
=============================================================================

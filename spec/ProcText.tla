------------------------------ MODULE ProcText ------------------------------
(***************************************************************************)
(* C12 -- what cmdline(), environ(), exe(), cwd() and the extended name()  *)
(* must return given the raw bytes the kernel exposes for one process:     *)
(* /proc/<pid>/cmdline, /proc/<pid>/environ, the targets of the exe and    *)
(* cwd links, the comm field, and the files those strings name.            *)
(*                                                                         *)
(* "Spec as oracle" (mode 5): Init ranges over concrete input records of   *)
(* five families (`kind`); for the four functional families one action     *)
(* Observe publishes the set of answers the statement allows; the fifth    *)
(* family is a small state machine: a plan of kernel phases of the exe     *)
(* link (readable with some target / withheld / denied / zombie), one      *)
(* exe() call per phase on the SAME Process object, with the object's      *)
(* answer memo as state.  Byte strings are sequences over 0..255.          *)
(*                                                                         *)
(* Every input record is JSON-shaped (no sets), so the same functions      *)
(* judge answers recorded from the real code on larger random inputs       *)
(* (ProcTextTrace).                                                        *)
(***************************************************************************)
EXTENDS Naturals, Sequences, FiniteSets, TLC, Json

CONSTANTS Kinds,        \* families Init enumerates: subset of {"cmdline","environ","link","name","exe"}
          CmdAlphabet,  \* bytes of raw cmdline strings
          CmdMaxLen,    \* ... of every length 0..CmdMaxLen
          EnvAlphabet,  \* bytes of raw environment blocks
          EnvMaxLen,
          EnvMaxEntries,\* ... and blocks of at most this many entries from a fixed entry set
          LinkMaxTok,   \* link targets = "/b/x" followed by at most this many tokens
          CommLens,     \* byte lengths of the kernel's name
          CommFills,    \* subset of {"ascii", "mb", "mbcut"}
          MaxCalls      \* exe() calls made on one object

VARIABLES inp, out, memo, k, ev
vars == <<inp, out, memo, k, ev>>

NUL == 0      SP == 32      EQ == 61      SLASH == 47      CR == 13      LF == 10

(* ----------------------------- byte strings ----------------------------- *)
Strs(A, n) == UNION {[1..m -> A] : m \in 0..n}
Last(s)  == s[Len(s)]
Front(s) == SubSeq(s, 1, Len(s) - 1)
Has(s, b) == \E i \in 1..Len(s) : s[i] = b
Count(s, b) == Cardinality({i \in 1..Len(s) : s[i] = b})
Max(S) == CHOOSE x \in S : \A y \in S : y <= x
Min(S) == CHOOSE x \in S : \A y \in S : x <= y
FirstIdx(s, b) == LET I == {i \in 1..Len(s) : s[i] = b} IN IF I = {} THEN 0 ELSE Min(I)
StartsWith(s, p) == Len(p) <= Len(s) /\ SubSeq(s, 1, Len(p)) = p
EndsWith(s, p)   == Len(p) <= Len(s) /\ SubSeq(s, Len(s) - Len(p) + 1, Len(s)) = p

RECURSIVE SplitAt(_, _, _, _)
SplitAt(s, sep, i, cur) ==
  IF i > Len(s) THEN <<cur>>
  ELSE IF s[i] = sep THEN <<cur>> \o SplitAt(s, sep, i + 1, <<>>)
  ELSE SplitAt(s, sep, i + 1, Append(cur, s[i]))
\* n separators give n+1 pieces, empty pieces kept
Split(s, sep) == SplitAt(s, sep, 1, <<>>)

RECURSIVE Join(_, _)
Join(ss, sep) == IF ss = <<>> THEN <<>>
                 ELSE IF Len(ss) = 1 THEN ss[1]
                 ELSE ss[1] \o <<sep>> \o Join(Tail(ss), sep)

RECURSIVE Cat(_)
Cat(ss) == IF ss = <<>> THEN <<>> ELSE Head(ss) \o Cat(Tail(ss))

\* what a reader with universal-newline translation makes of s (CR LF and a
\* lone CR become LF).  The kernel's records are bytes, not text lines: no
\* answer may depend on this function.  It only NAMES the cause when the
\* code's answer is the one the translated record would have (field `nl`).
RECURSIVE NlFrom(_, _)
NlFrom(s, i) == IF i > Len(s) THEN <<>>
                ELSE IF s[i] = CR
                     THEN <<LF>> \o NlFrom(s, IF i < Len(s) /\ s[i + 1] = LF THEN i + 2 ELSE i + 1)
                     ELSE <<s[i]>> \o NlFrom(s, i + 1)
NlTranslate(s) == NlFrom(s, 1)

CutNul(s) == IF Has(s, NUL) THEN SubSeq(s, 1, FirstIdx(s, NUL) - 1) ELSE s
Basename(s) == LET I == {i \in 1..Len(s) : s[i] = SLASH}
               IN IF I = {} THEN s ELSE SubSeq(s, Max(I) + 1, Len(s))

(* ------------------------------- results -------------------------------- *)
Ok(v)  == [exc |-> "", val |-> v]
Exc(e) == [exc |-> e, val |-> <<>>]
Pending == [pending |-> TRUE]
NoMemo  == [set |-> FALSE, val |-> <<>>]
Memo(v) == [set |-> TRUE, val |-> v]

(* ------------------------------- cmdline() ------------------------------ *)
\* Defined on the raw bytes: a NUL-terminated record is an argument vector
\* (empty arguments are arguments), unless it has no NUL *separator* and
\* contains a space -- then, like an unterminated record, it is a title the
\* process wrote over its arguments and is split on spaces.
CmdIsArgv(raw) == raw # <<>> /\ Last(raw) = NUL /\ (Has(Front(raw), NUL) \/ ~Has(raw, SP))
CmdParse(raw) ==
  IF raw = <<>> THEN <<>>
  ELSE IF CmdIsArgv(raw) THEN Split(Front(raw), NUL)
  ELSE IF Last(raw) \in {NUL, SP} THEN Split(Front(raw), SP)
  ELSE Split(raw, SP)

CmdClass(i) ==
  IF i.raw = <<>> THEN (IF i.zombie THEN "cmd:zombie" ELSE "cmd:empty")
  ELSE IF CmdIsArgv(i.raw) THEN
     (IF \E a \in 1..Len(CmdParse(i.raw)) : CmdParse(i.raw)[a] = <<>> THEN "cmd:argv-empty-arg"
      ELSE IF Has(i.raw, SP) THEN "cmd:argv-with-space" ELSE "cmd:argv")
  ELSE IF Last(i.raw) = NUL THEN "cmd:title-nul-terminated"
  ELSE IF Has(i.raw, NUL) THEN "cmd:open-nul-inside-unterminated"
  ELSE IF Last(i.raw) = SP THEN "cmd:title-trailing-space"
  ELSE "cmd:title"

\* what the statement allows.  A title ending in a space: the statement says
\* "split on spaces" and does not say whether the final empty piece is kept.
CmdAllowed(i) ==
  IF i.raw = <<>> THEN (IF i.zombie THEN {Exc("ZombieProcess")} ELSE {Ok(<<>>)})
  ELSE IF CmdClass(i) = "cmd:title-trailing-space"
       THEN {Ok(CmdParse(i.raw)), Ok(Split(i.raw, SP))}
  ELSE {Ok(CmdParse(i.raw))}

\* a record that neither ends with NUL nor is free of NULs is neither an
\* argument vector nor a title written "without NUL separators": unspecified
CmdOpen(i) == CmdClass(i) = "cmd:open-nul-inside-unterminated"

FCmd(i) == [allowed |-> CmdAllowed(i), open |-> CmdOpen(i), cls |-> CmdClass(i),
            nl |-> IF Has(i.raw, CR) THEN CmdAllowed([i EXCEPT !.raw = NlTranslate(i.raw)]) ELSE {}]

(* ------------------------------- environ() ------------------------------ *)
\* NUL-terminated entries; what follows the last NUL is not an entry
EnvEntries(b) == LET p == Split(b, NUL) IN SubSeq(p, 1, Len(p) - 1)
\* ... up to the first empty one
EnvLive(es) == LET E == {j \in 1..Len(es) : es[j] = <<>>}
               IN IF E = {} THEN es ELSE SubSeq(es, 1, Min(E) - 1)
IsAssign(e) == FirstIdx(e, EQ) > 1           \* NAME=value with a non-empty NAME
EName(e)  == SubSeq(e, 1, FirstIdx(e, EQ) - 1)
EValue(e) == SubSeq(e, FirstIdx(e, EQ) + 1, Len(e))
\* declarative: the pair of every assignment that no later assignment to the
\* same name follows
EnvOf(es) == {<<EName(es[j]), EValue(es[j])>> :
                j \in {a \in 1..Len(es) : /\ IsAssign(es[a])
                                          /\ \A l \in (a + 1)..Len(es) :
                                               IsAssign(es[l]) => EName(es[l]) # EName(es[a])}}
Environ(b) == EnvOf(EnvLive(EnvEntries(b)))

\* operational: a dictionary updated entry by entry (cross-checked below)
RECURSIVE EnvFold(_, _)
EnvFold(es, acc) ==
  IF es = <<>> THEN acc
  ELSE LET e == Head(es)
       IN IF e = <<>> THEN acc
          ELSE IF IsAssign(e)
               THEN EnvFold(Tail(es), {p \in acc : p[1] # EName(e)} \cup {<<EName(e), EValue(e)>>})
               ELSE EnvFold(Tail(es), acc)

EnvClass(i) ==
  LET es == EnvEntries(i.block)   live == EnvLive(es)
      tail == Last(Split(i.block, NUL))
  IN IF i.block = <<>> THEN "env:empty-block"
     ELSE IF Len(live) < Len(es) /\ Len(live) + 1 < Len(es) THEN "env:garbage-after-empty-entry"
     ELSE IF tail # <<>> /\ Len(live) = Len(es) THEN "env:unterminated-tail"
     ELSE IF \E a \in 1..Len(live) : ~IsAssign(live[a]) THEN "env:entry-without-name-or-equals"
     ELSE IF Cardinality(Environ(i.block)) < Len(live) THEN "env:duplicate"
     ELSE IF \E a \in 1..Len(live) : Count(live[a], EQ) > 1 THEN "env:equals-in-value"
     ELSE IF live = <<>> THEN "env:leading-empty-entry"
     ELSE "env:plain"

\* an unterminated tail is "trailing garbage" for the reading used here, but
\* the statement does not exclude treating it as a last entry: both allowed
EnvAllowed(i) == {Ok(Environ(i.block)), Ok(Environ(i.block \o <<NUL>>))}
FEnv(i) == [allowed |-> EnvAllowed(i), open |-> FALSE, cls |-> EnvClass(i),
            nl |-> IF Has(i.block, CR) THEN EnvAllowed([i EXCEPT !.block = NlTranslate(i.block)]) ELSE {}]

(* ------------------------- files of the sealed world -------------------- *)
\* i.files : sequence of [path, type] ; type "x" regular+executable,
\* "f" regular, "d" directory
FileType(i, path) == IF \E a \in 1..Len(i.files) : i.files[a].path = path
                     THEN i.files[CHOOSE a \in 1..Len(i.files) : i.files[a].path = path].type
                     ELSE "none"
Exists(i, path) == FileType(i, path) # "none"

(* ------------------------------ exe() / cwd() --------------------------- *)
DEL == <<32, 40, 100, 101, 108, 101, 116, 101, 100, 41>>     \* " (deleted)"
\* link target cut at the first NUL; a trailing " (deleted)" is stale -- and
\* removed -- when no path of that full name exists
Clean(i, target) ==
  LET c == CutNul(target)
  IN IF EndsWith(c, DEL) /\ ~Exists(i, c) THEN SubSeq(c, 1, Len(c) - Len(DEL)) ELSE c

\* one kernel phase of a link: [st, target], st in ok / withheld / denied / zombie
LinkClass(i) ==
  LET c == CutNul(i.ph.target)
  IN IF i.ph.st = "withheld" THEN "link:withheld"
     ELSE IF i.ph.st = "zombie" THEN "link:zombie"
     ELSE IF Has(i.ph.target, NUL) /\ EndsWith(c, DEL) THEN
            (IF Exists(i, c) THEN "link:nul+deleted-exists" ELSE "link:nul+deleted")
     ELSE IF Has(i.ph.target, NUL) THEN "link:nul-garbage"
     ELSE IF EndsWith(c, DEL) THEN
            (IF Exists(i, c) THEN "link:deleted-suffix-is-real-name" ELSE "link:deleted")
     ELSE "link:plain"

\* (the statement speaks of a LIVE process whose link is withheld; for a
\* zombie it names ZombieProcess only for cmdline(): '' is accepted as well)
LinkAllowed(i) ==
  IF i.ph.st = "zombie" THEN {Exc("ZombieProcess"), Ok(<<>>)}
  ELSE IF i.ph.st = "withheld" THEN {Ok(<<>>)}
  ELSE {Ok(Clean(i, i.ph.target))}
FLink(i) == [allowed |-> LinkAllowed(i), open |-> FALSE, cls |-> LinkClass(i), nl |-> {}]

(* --------------------------------- name() ------------------------------- *)
\* what cmdline() gives in the process's current state
CmdRes(state, raw) ==
  IF state = "denied" THEN Exc("AccessDenied")
  ELSE IF state = "zombie" THEN Exc("ZombieProcess")
  ELSE Ok(CmdParse(raw))

Extends(comm, c) ==
  /\ Len(comm) >= 15                      \* the kernel keeps 15 BYTES of a name
  /\ c.exc = "" /\ c.val # <<>>
  /\ StartsWith(Basename(c.val[1]), comm)

NameOf(comm, c) == IF Extends(comm, c) THEN Basename(c.val[1]) ELSE comm

NameClass(i) ==
  LET c == CmdRes(i.cmdstate, i.raw)
      \* a two-byte UTF-8 character: the name has fewer characters than bytes
      \* (or the 15-byte cut fell right after the lead byte of one)
      nonascii == IF \/ \E a \in 1..(Len(i.comm) - 1) : i.comm[a] \in 194..223 /\ i.comm[a + 1] \in 128..191
                     \/ (i.comm # <<>> /\ Last(i.comm) \in 194..223)
                  THEN "-multibyte"
                  ELSE IF \E a \in 1..Len(i.comm) : i.comm[a] > 127 THEN "-nonascii" ELSE ""
  IN IF Len(i.comm) < 15 THEN "name:short" \o nonascii
     ELSE IF c.exc # "" THEN "name:15-cmdline-" \o c.exc
     ELSE IF c.val = <<>> THEN "name:15-no-cmdline"
     ELSE IF Extends(i.comm, c) THEN
            (IF Basename(c.val[1]) = i.comm THEN "name:15-same" ELSE "name:15-extended" \o nonascii)
     ELSE "name:15-other"

FName(i) == [allowed |-> {Ok(NameOf(i.comm, CmdRes(i.cmdstate, i.raw)))},
             open |-> FALSE, cls |-> NameClass(i), nl |-> {}]

(* ----------------------- exe(): fallback and memo ----------------------- *)
\* cmdline()[0] may stand in for a withheld link iff it is an absolute path
\* to a regular executable file
GuessOK(i) ==
  LET c == CmdRes(i.cmdstate, i.raw)
  IN /\ c.exc = "" /\ c.val # <<>>
     /\ c.val[1] # <<>> /\ c.val[1][1] = SLASH
     /\ FileType(i, c.val[1]) = "x"
Guess(i) == CmdParse(i.raw)[1]

\* Step(m, ph, i): the set of <<answer, memo'>> pairs allowed for one exe()
\* call made with memo m while the kernel is in phase ph.
\*   - a remembered answer is the answer, whatever the kernel says now;
\*   - a readable link gives the cleaned target; a withheld one (live
\*     process) the qualifying cmdline()[0] or ''; both are remembered;
\*   - errors are never remembered;
\*   - a zombie's link: ZombieProcess, or '' (remembered or not);
\*   - a DENIED link is outside the statement except that the error must not
\*     be remembered: AccessDenied, or the qualifying cmdline()[0] (remembered
\*     or not), are all accepted.
Step(m, ph, i) ==
  IF m.set THEN {<<Ok(m.val), m>>}
  ELSE IF ph.st = "zombie" THEN {<<Exc("ZombieProcess"), NoMemo>>, <<Ok(<<>>), NoMemo>>, <<Ok(<<>>), Memo(<<>>)>>}
  ELSE IF ph.st = "denied" THEN
     (IF GuessOK(i) THEN {<<Ok(Guess(i)), NoMemo>>, <<Ok(Guess(i)), Memo(Guess(i))>>,
                          <<Exc("AccessDenied"), NoMemo>>}
      ELSE {<<Exc("AccessDenied"), NoMemo>>})
  ELSE LET link == IF ph.st = "ok" THEN Clean(i, ph.target) ELSE <<>>
           v == IF link # <<>> THEN link ELSE IF GuessOK(i) THEN Guess(i) ELSE <<>>
       IN {<<Ok(v), Memo(v)>>}

\* class of one call made when the memo is one of ms (a set: the trace
\* validation tracks every memo compatible with the answers seen so far)
ExeClass(ms, ph, i) ==
  LET rem == IF \A m \in ms : m.set THEN "remembered"
             ELSE IF \A m \in ms : ~m.set THEN "fresh" ELSE "either"
  IN "exe:" \o ph.st \o ":" \o rem
       \o (IF ph.st \in {"withheld", "denied"} /\ rem # "remembered"
           THEN (IF GuessOK(i) THEN ":guess" ELSE ":noguess") ELSE "")

(* ------------------------------ input space ----------------------------- *)
CmdInputs == {[kind |-> "cmdline", raw |-> r, zombie |-> FALSE] : r \in Strs(CmdAlphabet, CmdMaxLen)}
             \cup {[kind |-> "cmdline", raw |-> <<>>, zombie |-> TRUE]}

\* entries: A=x  A=  A  =x  A=x=  x=A  (empty)  B=x  A=<CR>x
EnvEntrySet == <<<<65, 61, 120>>, <<65, 61>>, <<65>>, <<61, 120>>, <<65, 61, 120, 61>>,
                 <<120, 61, 65>>, <<>>, <<66, 61, 120>>, <<65, 61, 13, 120>>>>
EnvBlocks == {Cat([a \in DOMAIN s |-> EnvEntrySet[s[a]] \o <<NUL>>]) \o tail :
                 s \in Strs(1..Len(EnvEntrySet), EnvMaxEntries), tail \in {<<>>, <<65, 61, 120>>}}
EnvInputs == {[kind |-> "environ", block |-> b] : b \in Strs(EnvAlphabet, EnvMaxLen) \cup EnvBlocks}

P1 == <<47, 98, 47, 120>>                        \* "/b/x"
Tok == <<DEL, <<NUL>>, <<103>>, <<255>>>>        \* " (deleted)", NUL, "g", a non-UTF-8 byte
LinkTargets == {P1 \o Cat([a \in DOMAIN s |-> Tok[s[a]]]) : s \in Strs(1..Len(Tok), LinkMaxTok)}
               \cup {<<SLASH>>, <<SLASH>> \o DEL}
FilesFor(t) == {<<>>, <<[path |-> CutNul(t), type |-> "x"]>>}
LinkInputs ==
  UNION {{[kind |-> "link", which |-> w, ph |-> [st |-> "ok", target |-> t], files |-> f] :
            w \in {"exe", "cwd"}, f \in FilesFor(t) \cup FilesFor(P1 \o <<103>>)} : t \in LinkTargets}
  \cup {[kind |-> "link", which |-> w, ph |-> [st |-> s, target |-> <<>>], files |-> <<>>] :
      w \in {"exe", "cwd"}, s \in {"withheld", "zombie"}}
\* (a file under a *different* name is enumerated too: the existence of some
\* other path must not matter)

Fill(l, f) ==
  IF f = "ascii" THEN [a \in 1..l |-> 96 + a]
  ELSE IF f = "mb" THEN       \* 'a' (odd lengths) then U+00E9 as c3 a9, repeated
       [a \in 1..l |-> IF l % 2 = 1 /\ a = 1 THEN 97
                       ELSE IF (a + l) % 2 = 1 THEN 195 ELSE 169]
  ELSE \* "mbcut": the 15-byte cut fell inside a two-byte character
       [a \in 1..l |-> IF a = l THEN 195
                       ELSE IF (l - 1) % 2 = 1 /\ a = 1 THEN 97
                       ELSE IF (a + l - 1) % 2 = 1 THEN 195 ELSE 169]
ExtSuffix(f) == IF f = "mbcut" THEN <<169, 45, 100>> ELSE <<45, 100>>     \* completes the character; "-d"
BaseOf(comm, f, b) ==
  IF b = "ext" THEN comm \o ExtSuffix(f)
  ELSE IF b = "same" THEN comm
  ELSE IF b = "suffix" THEN <<120>> \o comm        \* ENDS with comm
  ELSE <<122, 122>>                                \* "zz"
DirU == <<47, 117, 47, 98, 47>>                    \* "/u/b/"
RawOf(argv0, form) ==
  IF form = "argv" THEN argv0 \o <<NUL, 45, 118, NUL>>
  ELSE IF form = "argv1" THEN argv0 \o <<NUL>>
  ELSE argv0 \o <<SP, 45, 118>>                    \* title, no NUL at all
NameInputs ==
  {[kind |-> "name", comm |-> Fill(l, f), cmdstate |-> "ok",
    raw |-> RawOf(d \o BaseOf(Fill(l, f), f, b), form)] :
      l \in CommLens, f \in CommFills, b \in {"ext", "same", "suffix", "other"},
      d \in {<<>>, DirU}, form \in {"argv", "argv1", "title"}}
  \cup {[kind |-> "name", comm |-> Fill(l, f), cmdstate |-> s,
         raw |-> IF s = "denied" THEN RawOf(Fill(l, f) \o ExtSuffix(f), "argv") ELSE <<>>] :
      l \in CommLens, f \in CommFills, s \in {"ok", "denied", "zombie"}}

PhaseOf == [T1 |-> [st |-> "ok", target |-> P1],
            T2 |-> [st |-> "ok", target |-> <<47, 98, 47, 121>> \o DEL],      \* "/b/y (deleted)"
            W  |-> [st |-> "withheld", target |-> <<>>],
            D  |-> [st |-> "denied", target |-> <<>>],
            Z  |-> [st |-> "zombie", target |-> <<>>]]
\* a zombie does not come back to life
PlanOK(p) == \A a, b \in 1..Len(p) : (a < b /\ p[a] = "Z") => p[b] = "Z"
Plans == {p \in UNION {[1..n -> {"T1", "T2", "W", "D", "Z"}] : n \in 1..MaxCalls} : PlanOK(p)}
G1 == <<47, 98, 47, 103>>                          \* "/b/g"
CandOf == [absx   |-> [cmdstate |-> "ok", raw |-> G1 \o <<NUL, 45, 118, NUL>>, files |-> <<[path |-> G1, type |-> "x"]>>],
           absf   |-> [cmdstate |-> "ok", raw |-> G1 \o <<NUL>>, files |-> <<[path |-> G1, type |-> "f"]>>],
           absd   |-> [cmdstate |-> "ok", raw |-> G1 \o <<NUL>>, files |-> <<[path |-> G1, type |-> "d"]>>],
           absent |-> [cmdstate |-> "ok", raw |-> G1 \o <<NUL>>, files |-> <<>>],
           rel    |-> [cmdstate |-> "ok", raw |-> <<103, NUL>>, files |-> <<[path |-> <<103>>, type |-> "x"]>>],
           title  |-> [cmdstate |-> "ok", raw |-> G1 \o <<SP, 45, 118>>, files |-> <<[path |-> G1, type |-> "x"]>>],
           empty  |-> [cmdstate |-> "ok", raw |-> <<>>, files |-> <<>>],
           denied |-> [cmdstate |-> "denied", raw |-> G1 \o <<NUL>>, files |-> <<[path |-> G1, type |-> "x"]>>]]
ExeInputs == {[kind |-> "exe", plan |-> [a \in DOMAIN p |-> PhaseOf[p[a]]],
               cmdstate |-> CandOf[c].cmdstate, raw |-> CandOf[c].raw, files |-> CandOf[c].files] :
                 p \in Plans, c \in DOMAIN CandOf}

(* ------------------------------- behaviour ------------------------------ *)
F(i) == CASE i.kind = "cmdline" -> FCmd(i)
          [] i.kind = "environ" -> FEnv(i)
          [] i.kind = "link"    -> FLink(i)
          [] i.kind = "name"    -> FName(i)

Init == /\ \/ "cmdline" \in Kinds /\ inp \in CmdInputs
           \/ "environ" \in Kinds /\ inp \in EnvInputs
           \/ "link"    \in Kinds /\ inp \in LinkInputs
           \/ "name"    \in Kinds /\ inp \in NameInputs
           \/ "exe"     \in Kinds /\ inp \in ExeInputs
        /\ out = Pending
        /\ memo = NoMemo
        /\ k = 0
        /\ ev = [op |-> "init"]

Observe == /\ inp.kind # "exe"
           /\ out = Pending
           /\ out' = F(inp)
           /\ ev' = [op |-> "observe", inp |-> inp, out |-> F(inp)]
           /\ UNCHANGED <<inp, memo, k>>

ExeCall == /\ inp.kind = "exe"
           /\ k < Len(inp.plan)
           /\ \E pr \in Step(memo, inp.plan[k + 1], inp) :
                /\ memo' = pr[2]
                /\ ev' = [op |-> "exe", inp |-> inp, k |-> k + 1, pre |-> memo,
                          res |-> pr[1], post |-> pr[2],
                          cls |-> ExeClass({memo}, inp.plan[k + 1], inp)]
           /\ k' = k + 1
           /\ UNCHANGED <<inp, out>>

Next == Observe \/ ExeCall
Spec == Init /\ [][Next]_vars

(* ---- structural facts, checked over the whole enumerated input space ---- *)
Done == out # Pending
IsK(kind) == inp.kind = kind

\* cmdline: no byte is lost or invented.  The pieces joined by the separator
\* give back the record minus exactly one terminator; no piece contains the
\* separator; an argument vector has exactly one argument per NUL.
CmdConserves ==
  IsK("cmdline") /\ inp.raw # <<>> =>
    LET r == CmdParse(inp.raw)
        sep == IF CmdIsArgv(inp.raw) THEN NUL ELSE SP
        body == IF Last(inp.raw) \in {NUL, SP} THEN Front(inp.raw) ELSE inp.raw
    IN /\ Join(r, sep) = body
       /\ \A a \in 1..Len(r) : ~Has(r[a], sep)
       /\ Len(r) = Count(body, sep) + 1
       /\ CmdIsArgv(inp.raw) => Len(r) = Count(inp.raw, NUL)
\* every argument vector comes back as it went in: render argv as the kernel
\* does, parse, compare (the one-element vector containing a space is the
\* shape the reading gives to titles)
CmdArgvRoundTrip ==
  IsK("cmdline") /\ inp.raw # <<>> /\ Last(inp.raw) = NUL =>
    LET argv == Split(Front(inp.raw), NUL)
    IN (Len(argv) > 1 \/ ~Has(argv[1], SP)) =>
          /\ CmdParse(inp.raw) = argv
          /\ Cat([a \in DOMAIN argv |-> argv[a] \o <<NUL>>]) = inp.raw
CmdTotal ==
  IsK("cmdline") /\ Done =>
    /\ out.allowed # {}
    /\ (\E r \in out.allowed : r.exc # "") <=> (inp.zombie /\ inp.raw = <<>>)

\* environ: well-formed, a function of the name, equal to the operational
\* reading, insensitive to anything after the first empty entry
EnvWellFormed ==
  IsK("environ") =>
    LET e == Environ(inp.block)
    IN /\ \A p \in e : p[1] # <<>> /\ ~Has(p[1], EQ) /\ ~Has(p[1], NUL) /\ ~Has(p[2], NUL)
       /\ \A p, q \in e : p[1] = q[1] => p = q
EnvFoldAgrees == IsK("environ") => Environ(inp.block) = EnvFold(EnvEntries(inp.block), {})
EnvGarbageIgnored ==
  IsK("environ") /\ (inp.block = <<>> \/ Last(inp.block) = NUL) =>
    \A g \in {<<>>, <<65, EQ, 120, NUL>>, <<EQ>>, <<120>>} :
       Environ(inp.block \o <<NUL>> \o g) = Environ(inp.block)
EnvValueKeepsEquals ==
  IsK("environ") =>
    \A p \in Environ(inp.block) :
       \E a \in 1..Len(EnvEntries(inp.block)) : EnvEntries(inp.block)[a] = p[1] \o <<EQ>> \o p[2]

\* links: the answer is a NUL-free prefix of the target, shorter than the cut
\* target by nothing or by exactly " (deleted)", and never shortened when the
\* full name exists
LinkShape ==
  IsK("link") /\ inp.ph.st = "ok" =>
    LET c == CutNul(inp.ph.target)   r == Clean(inp, inp.ph.target)
    IN /\ ~Has(r, NUL) /\ StartsWith(inp.ph.target, r)
       /\ (r = c \/ (c = r \o DEL /\ ~Exists(inp, c)))
       /\ Exists(inp, c) => r = c
       /\ ~EndsWith(c, DEL) => r = c

\* name: the kernel's name is always a prefix of the answer; names shorter
\* than 15 bytes are never replaced; a replacement is a basename
NameShape ==
  IsK("name") =>
    LET n == NameOf(inp.comm, CmdRes(inp.cmdstate, inp.raw))
    IN /\ StartsWith(n, inp.comm)
       /\ Len(inp.comm) < 15 => n = inp.comm
       /\ inp.cmdstate # "ok" => n = inp.comm
       /\ n # inp.comm => ~Has(n, SLASH) /\ Len(n) > 15

\* exe memo: once an answer is remembered every later answer is that answer;
\* an error never sets the memo; what is remembered is what was answered
ExeSticky == [][(ev'.op = "exe" /\ memo.set) => (ev'.res = Ok(memo.val) /\ memo' = memo)]_vars
ExeErrorsNotRemembered == [][(ev'.op = "exe" /\ ev'.res.exc # "") => memo' = memo]_vars
ExeRemembersItsAnswer == [][(ev'.op = "exe" /\ memo'.set) => ev'.res = Ok(memo'.val)]_vars
\* for everything the statement pins (link readable or withheld, no memo) the
\* answer is unique and remembered
ExeDeterminedWhenStated ==
  IsK("exe") /\ k < Len(inp.plan) /\ inp.plan[k + 1].st \in {"ok", "withheld"} =>
     /\ Cardinality(Step(memo, inp.plan[k + 1], inp)) = 1
     /\ \A pr \in Step(memo, inp.plan[k + 1], inp) : pr[2].set

DumpL == PrintT(<<"TR", "0", ToJson(ev'), "0", TLCGet("level")>>)
=============================================================================

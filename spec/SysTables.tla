------------------------------ MODULE SysTables ------------------------------
(***************************************************************************)
(* C17 (Python layer) -- what psutil must report for the system tables the *)
(* C extension hands to psutil/_pslinux.py and psutil/__init__.py:         *)
(*   mounts  mount table + filesystem table + facts about the root device  *)
(*           -> disk_partitions(all)                                       *)
(*   stats   interface list + per-interface MTU / flags / duplex / speed   *)
(*           or errno -> net_if_stats()                                    *)
(*   addrs   raw (name, family, address, netmask, broadcast, ptp) rows     *)
(*           -> net_if_addrs()                                             *)
(*   users   raw login rows -> users()                                     *)
(* "Specification as oracle" (mode 5): Init ranges over the abstract input *)
(* space, the single action Observe publishes out = F(inp).  Strings are   *)
(* atoms (TLC cannot look inside a string): a MAC or IP address is a       *)
(* sequence of groups the harness joins with ':' (an IP address is one     *)
(* group), an absent optional value is the empty sequence, mount points    *)
(* with blanks/tabs/backslashes are tokens the harness expands.            *)
(* Sub-families "rootfs" and "mtab" use the same input record and the same *)
(* function as "mounts"; they only enumerate other corners of it.          *)
(***************************************************************************)
EXTENDS Naturals, Sequences, FiniteSets, TLC, Json

CONSTANTS Families,    \* subset of {"mounts", "rootfs", "mtab", "stats", "addrs", "users"}
          MaxEnts,     \* mount tables of 0..MaxEnts entries
          MaxNics,     \* 0..MaxNics interfaces (at most 3)
          MaxRows,     \* 0..MaxRows raw address rows
          MaxLogins    \* 0..MaxLogins login records (at most 3)

VARIABLES inp, out, ev
vars == <<inp, out, ev>>
Pending == [pending |-> TRUE]

ENODEV == 19
None == <<>>                                 \* absent netmask / broadcast / ptp
Elems(s) == {s[k] : k \in DOMAIN s}
Count(s, x) == Cardinality({k \in DOMAIN s : s[k] = x})
SameBag(s, t) == /\ Len(s) = Len(t)
                 /\ \A x \in Elems(s) \cup Elems(t) : Count(s, x) = Count(t, x)

(* ======================= disk_partitions ================================ *)
\* an entry of the mount table, escapes already decoded
\*   [dev, dir, type, opts]
\* a line of the filesystem table:  [type, nodev]
\* facts about the device "/" lives on (what RootFsDeviceFinder can learn):
\*   dev    <<major, minor>> of stat("/").st_dev
\*   path   "/dev/<name>" of that device
\*   parts  PROCFS/partitions:        "absent" | "nomatch" | "match"
\*   uevent /sys/dev/block/M:m/uevent: "absent" | "noname"  | "match"
\*   cls    /sys/class/block/*/dev:    "absent" | "nomatch" | "match"
\*   node   whether the device node `path` exists
\* The three sources are views of one kernel table: whichever of them knows
\* the device names the same device.
\* mtab / procfs: where the table is found ("/etc/mtab" absent, a symlink to
\* the procfs table, or a regular file with the same content; PROCFS_PATH);
\* the answer does not depend on them.

RootAliases == {"/dev/root", "rootfs"}
Listed(fst) == {fst[k].type : k \in DOMAIN fst}
\* nodev lines are ignored, except "nodev zfs"
DiskBacked(fst) == {fst[k].type : k \in {j \in DOMAIN fst : ~fst[j].nodev \/ fst[j].type = "zfs"}}
RootFound(r) == r.node /\ ("match" \in {r.parts, r.uevent, r.cls})
DevOut(i, d) == IF d = "none" THEN ""
                ELSE IF d \in RootAliases /\ RootFound(i.root) THEN i.root.path
                ELSE d
Keep(i, e) == i.all \/ (DevOut(i, e.dev) # "" /\ e.type \in DiskBacked(i.fst))
MountRow(i, e) == [device |-> DevOut(i, e.dev), mountpoint |-> e.dir, fstype |-> e.type, opts |-> e.opts]
MountOut(i) == [rows |-> LET kept == SelectSeq(i.ents, LAMBDA e : Keep(i, e))
                         IN [k \in DOMAIN kept |-> MountRow(i, kept[k])]]

(* ---- enumerated corner of the input space ---- *)
Devs == {"/dev/sdb1", "none", "/dev/root", "rootfs", "tmpfs", "pool/data", "/dev/my disk"}
Types == {"ext4", "tmpfs", "zfs", "proc"}
DirAt == <<"D_ROOT", "D_SPACE", "D_TAB", "D_BSL">>
OptsAt == <<"rw,relatime", "ro,nosuid,nodev", "rw", "rw,noatime">>
Line(t, nd) == [type |-> t, nodev |-> nd]
FsUsual == <<Line("ext4", FALSE), Line("tmpfs", TRUE), Line("zfs", TRUE), Line("proc", TRUE)>>
FsMixed == <<Line("sysfs", TRUE), Line("zfs", TRUE), Line("vfat", FALSE), Line("proc", TRUE),
             Line("tmpfs", TRUE), Line("ext4", FALSE), Line("fuseblk", FALSE)>>
FsNoZfs == <<Line("ext4", FALSE), Line("tmpfs", TRUE), Line("proc", TRUE)>>
FsRoot  == FsUsual \o <<Line("rootfs", TRUE)>>
FsTables == {FsUsual, FsMixed, FsNoZfs}
RootDevs == {<<8, 1>>, <<259, 300>>}
PathOf(rd) == IF rd = <<8, 1>> THEN "/dev/sda1" ELSE "/dev/nvme0n1p2"
DefaultRoot == [dev |-> <<8, 1>>, path |-> "/dev/sda1", parts |-> "match", uevent |-> "match",
                cls |-> "match", node |-> TRUE]
Ent(k, d, t) == [dev |-> d, dir |-> DirAt[k], type |-> t, opts |-> OptsAt[k]]

MountsInit ==
  \E m \in 0..MaxEnts : \E f \in [1..m -> Devs \X Types] : \E tbl \in FsTables : \E a \in BOOLEAN :
     /\ \A k \in 1..m : f[k][2] \in Listed(tbl)       \* a mounted type is a registered type
     /\ inp = [fam |-> "mounts", ents |-> [k \in 1..m |-> Ent(k, f[k][1], f[k][2])], fst |-> tbl,
               all |-> a, root |-> DefaultRoot, mtab |-> "link", procfs |-> "/proc"]

RootfsInit ==
  \E rd \in RootDevs : \E p \in {"absent", "nomatch", "match"} : \E u \in {"absent", "noname", "match"} :
  \E c \in {"absent", "nomatch", "match"} : \E nd \in BOOLEAN : \E d \in RootAliases :
  \E t \in {"ext4", "rootfs"} : \E shape \in 1..3 : \E a \in BOOLEAN :
     inp = [fam |-> "rootfs",
            ents |-> CASE shape = 1 -> <<Ent(1, d, t)>>
                       [] shape = 2 -> <<Ent(1, d, t), Ent(2, "/dev/sdb1", "ext4")>>
                       [] shape = 3 -> <<Ent(1, "none", "tmpfs"), Ent(2, d, t)>>,
            fst |-> FsRoot, all |-> a,
            root |-> [dev |-> rd, path |-> PathOf(rd), parts |-> p, uevent |-> u, cls |-> c, node |-> nd],
            mtab |-> "link", procfs |-> "/proc"]

MtabInit ==
  \E mt \in {"absent", "link", "rellink", "file"} : \E pf \in {"/proc", "/host/proc"} : \E a \in BOOLEAN :
  \E shape \in 1..3 :
     inp = [fam |-> "mtab",
            ents |-> CASE shape = 1 -> <<>>
                       [] shape = 2 -> <<Ent(1, "/dev/sdb1", "ext4")>>
                       [] shape = 3 -> <<Ent(1, "none", "tmpfs"), Ent(2, "/dev/root", "ext4"), Ent(3, "pool/data", "zfs")>>,
            fst |-> FsUsual, all |-> a, root |-> DefaultRoot, mtab |-> mt, procfs |-> pf]

(* ========================== net_if_stats ================================ *)
\* one interface of the kernel's list:
\*   [name, mtu, flags (sequence of flag names), duplex (ethtool code 0 half /
\*    1 full / 255 unknown), speed, err (0, or the errno of the failing query),
\*    errat ("mtu" | "flags" | "duplex": which of the three queries fails)]
DuplexOf(c) == CASE c = 1 -> "full" [] c = 0 -> "half" [] c = 255 -> "unknown"
StatRow(n) == [isup |-> "running" \in Elems(n.flags), duplex |-> DuplexOf(n.duplex),
               speed |-> n.speed, mtu |-> n.mtu, flags |-> n.flags]
StatsOut(i) ==
  LET bad == {k \in DOMAIN i.nics : i.nics[k].err \notin {0, ENODEV}}
      okn == {k \in DOMAIN i.nics : i.nics[k].err = 0}
  IN IF bad # {}
     THEN [raises |-> TRUE, errnos |-> {i.nics[k].err : k \in bad}, nics |-> <<>>]
     ELSE [raises |-> FALSE, errnos |-> {},
           nics |-> [n \in {i.nics[k].name : k \in okn} |->
                       StatRow(i.nics[CHOOSE k \in okn : i.nics[k].name = n])]]

NicNames == <<"eth0", "lo", "wlan0">>
MtuAt == <<1500, 65536, 1280>>
FlagSets == {<<>>, <<"up">>, <<"up", "running">>, <<"up", "broadcast", "running", "multicast">>,
             <<"up", "loopback", "running">>, <<"pointopoint", "noarp">>}
Links == {<<1, 1000>>, <<0, 10>>, <<255, 0>>}
Healthy == [flags : FlagSets, link : Links, err : {0}, errat : {"mtu"}]
Failing == [flags : {<<"up", "running">>}, link : {<<1, 1000>>}, err : {ENODEV, 1}, errat : {"mtu", "flags", "duplex"}]
Profiles == Healthy \cup Failing
Nic(k, p) == [name |-> NicNames[k], mtu |-> MtuAt[k], flags |-> p.flags, duplex |-> p.link[1],
              speed |-> p.link[2], err |-> p.err, errat |-> p.errat]
StatsInit == \E m \in 0..MaxNics : \E f \in [1..m -> Profiles] :
               inp = [fam |-> "stats", nics |-> [k \in 1..m |-> Nic(k, f[k])]]

(* ========================== net_if_addrs ================================ *)
\* a raw row of the extension: [name, fam (2 AF_INET / 10 AF_INET6 / 17 AF_PACKET),
\*   addr, mask, bcast, ptp]   (addresses are sequences of groups)
FamName(f) == CASE f = 2 -> "AF_INET" [] f = 10 -> "AF_INET6" [] f = 17 -> "AF_LINK"
FamRank(n) == CASE n = "AF_INET" -> 2 [] n = "AF_INET6" -> 10 [] n = "AF_LINK" -> 17
Pad(a) == IF Len(a) >= 6 THEN a ELSE a \o [k \in 1..(6 - Len(a)) |-> "00"]
AddrRow(r) == [family |-> FamName(r.fam), address |-> IF r.fam = 17 THEN Pad(r.addr) ELSE r.addr,
               netmask |-> r.mask, broadcast |-> r.bcast, ptp |-> r.ptp]
ByFamily(rows) == SelectSeq(rows, LAMBDA r : r.fam = 2) \o SelectSeq(rows, LAMBDA r : r.fam = 10)
                  \o SelectSeq(rows, LAMBDA r : r.fam = 17)
AddrsOut(i) == [nics |-> [n \in {i.rows[k].name : k \in DOMAIN i.rows} |->
                  LET mine == SelectSeq(ByFamily(i.rows), LAMBDA r : r.name = n)
                  IN [k \in DOMAIN mine |-> AddrRow(mine[k])]]]

Shapes == { [fam |-> 2, addr |-> <<"10.0.0.1">>, mask |-> <<"255.0.0.0">>, bcast |-> <<"10.255.255.255">>, ptp |-> None],
            [fam |-> 2, addr |-> <<"10.8.0.2">>, mask |-> <<"255.255.255.255">>, bcast |-> None, ptp |-> <<"10.8.0.1">>],
            [fam |-> 10, addr |-> <<"fe80::1%eth0">>, mask |-> <<"ffff:ffff:ffff:ffff::">>, bcast |-> None, ptp |-> None],
            [fam |-> 17, addr |-> <<"aa", "bb", "cc", "dd", "ee", "ff">>, mask |-> None,
                         bcast |-> <<"ff", "ff", "ff", "ff", "ff", "ff">>, ptp |-> None],
            [fam |-> 17, addr |-> <<"0a">>, mask |-> None, bcast |-> None, ptp |-> None],
            [fam |-> 17, addr |-> <<"c0", "a8", "01", "02">>, mask |-> None, bcast |-> None, ptp |-> <<"c0", "a8", "01", "01">>],
            [fam |-> 17, addr |-> <<"80", "00", "02", "08", "fe", "80", "00", "01">>, mask |-> None, bcast |-> None, ptp |-> None] }
RawRow(n, s) == [name |-> n, fam |-> s.fam, addr |-> s.addr, mask |-> s.mask, bcast |-> s.bcast, ptp |-> s.ptp]
AddrsInit == \E m \in 0..MaxRows : \E f \in [1..m -> {NicNames[k] : k \in 1..(IF MaxNics < 2 THEN 2 ELSE MaxNics)} \X Shapes] :
               inp = [fam |-> "addrs", rows |-> [k \in 1..m |-> RawRow(f[k][1], f[k][2])]]

(* ============================== users =================================== *)
\* a raw login row of the extension: [user, tty, host, tstamp, pid]
UserRow(r) == [name |-> r.user, terminal |-> IF r.tty = "" THEN "None" ELSE r.tty, host |-> r.host,
               started |-> r.tstamp, pid |-> r.pid]
UsersOut(i) == [rows |-> [k \in DOMAIN i.recs |-> UserRow(i.recs[k])]]
Login(k, u, t, h) == [user |-> u, tty |-> t, host |-> h, tstamp |-> 1600000000 + 1000 * k, pid |-> 4000 + k]
UsersInit == \E m \in 0..MaxLogins : \E f \in [1..m -> {"root", "alice"} \X {"", "tty1", "pts/0"} \X {"", "localhost", "10.0.0.9"}] :
               inp = [fam |-> "users", recs |-> [k \in 1..m |-> Login(k, f[k][1], f[k][2], f[k][3])]]

(* ============================= machine ================================== *)
MountFams == {"mounts", "rootfs", "mtab"}
F(i) == CASE i.fam \in MountFams -> MountOut(i)
          [] i.fam = "stats" -> StatsOut(i)
          [] i.fam = "addrs" -> AddrsOut(i)
          [] i.fam = "users" -> UsersOut(i)

Init == /\ \/ "mounts" \in Families /\ MountsInit
           \/ "rootfs" \in Families /\ RootfsInit
           \/ "mtab" \in Families /\ MtabInit
           \/ "stats" \in Families /\ StatsInit
           \/ "addrs" \in Families /\ AddrsInit
           \/ "users" \in Families /\ UsersInit
        /\ out = Pending
        /\ ev = [op |-> "init"]

Observe == /\ out = Pending
           /\ out' = F(inp)
           /\ inp' = inp
           /\ ev' = [op |-> "observe", inp |-> inp, out |-> F(inp)]
Next == Observe
Spec == Init /\ [][Next]_vars
Done == out # Pending

(* ---------- structural facts about F, checked over the whole space ------ *)
IsMount == Done /\ inp.fam \in MountFams
\* all=True keeps every entry, in place, with its mount point, type and options
AllKeepsEverything ==
  (IsMount /\ inp.all) => /\ Len(out.rows) = Len(inp.ents)
                          /\ \A k \in DOMAIN inp.ents :
                               /\ out.rows[k].mountpoint = inp.ents[k].dir
                               /\ out.rows[k].fstype = inp.ents[k].type
                               /\ out.rows[k].opts = inp.ents[k].opts
\* all=False rows have a device and a disk-backed type, and are rows of all=True
FilteredRowsAreDisks ==
  (IsMount /\ ~inp.all) => /\ \A k \in DOMAIN out.rows : /\ out.rows[k].device # ""
                                                         /\ out.rows[k].fstype \in DiskBacked(inp.fst)
                           /\ \A r \in Elems(out.rows) :
                                Count(out.rows, r) <= Count(F([inp EXCEPT !.all = TRUE]).rows, r)
\* the filter loses nothing that is a disk: an entry with a device and a
\* disk-backed type is reported
FilterKeepsDisks ==
  (IsMount /\ ~inp.all) =>
     Len(out.rows) = Cardinality({k \in DOMAIN inp.ents : inp.ents[k].dev # "none" /\ inp.ents[k].type \in DiskBacked(inp.fst)})
NoneIsNeverShown == IsMount => \A k \in DOMAIN out.rows : out.rows[k].device # "none"
\* an alias of the root device is replaced only by the existing node of that device
RootOnlyIfKnown ==
  IsMount => \A k \in DOMAIN inp.ents :
     (inp.all /\ inp.ents[k].dev \in RootAliases) =>
        \/ out.rows[k].device = inp.ents[k].dev /\ ~RootFound(inp.root)
        \/ out.rows[k].device = inp.root.path /\ inp.root.node
           /\ (inp.root.parts = "match" \/ inp.root.uevent = "match" \/ inp.root.cls = "match")
\* any one of the three sources is enough
AnySourceSuffices ==
  (IsMount /\ inp.root.node) =>
     \A s \in {"parts", "uevent", "cls"} :
        LET r == [inp.root EXCEPT !.parts = IF s = "parts" THEN "match" ELSE "absent",
                                  !.uevent = IF s = "uevent" THEN "match" ELSE "absent",
                                  !.cls = IF s = "cls" THEN "match" ELSE "absent"]
        IN \A k \in DOMAIN inp.ents : inp.ents[k].dev \in RootAliases =>
              DevOut([inp EXCEPT !.root = r], inp.ents[k].dev) = inp.root.path
\* where the table was found does not matter
LocationIrrelevant ==
  IsMount => \A mt \in {"absent", "link", "file"} : \A pf \in {"/proc", "/host/proc"} :
                F([inp EXCEPT !.mtab = mt, !.procfs = pf]) = out

IsStats == Done /\ inp.fam = "stats"
Enodevs(i) == {k \in DOMAIN i.nics : i.nics[k].err = ENODEV}
Others(i) == {k \in DOMAIN i.nics : i.nics[k].err \notin {0, ENODEV}}
IsUpIffRunning ==
  (IsStats /\ ~out.raises) => \A n \in DOMAIN out.nics : out.nics[n].isup <=> ("running" \in Elems(out.nics[n].flags))
\* an interface that vanished (ENODEV) is absent and the call succeeds
EnodevIsSkipped ==
  (IsStats /\ Others(inp) = {}) =>
     /\ ~out.raises
     /\ DOMAIN out.nics = {inp.nics[k].name : k \in DOMAIN inp.nics \ Enodevs(inp)}
OtherErrorsPropagate ==
  (IsStats /\ Others(inp) # {}) => out.raises /\ out.errnos # {} /\ ENODEV \notin out.errnos /\ 0 \notin out.errnos
StatsMirrorKernel ==
  (IsStats /\ ~out.raises) => \A k \in DOMAIN inp.nics : inp.nics[k].err = 0 =>
       LET r == out.nics[inp.nics[k].name]
       IN r.mtu = inp.nics[k].mtu /\ r.speed = inp.nics[k].speed /\ r.flags = inp.nics[k].flags
          /\ r.duplex \in {"full", "half", "unknown"}

IsAddrs == Done /\ inp.fam = "addrs"
SortedByFamily ==
  IsAddrs => \A n \in DOMAIN out.nics : \A a, b \in DOMAIN out.nics[n] :
                a < b => FamRank(out.nics[n][a].family) <= FamRank(out.nics[n][b].family)
MacHasSixGroups ==
  IsAddrs => \A n \in DOMAIN out.nics : \A k \in DOMAIN out.nics[n] :
                out.nics[n][k].family = "AF_LINK" => Len(out.nics[n][k].address) >= 6
\* padding only appends "00" groups; nothing else is touched; no row is lost
PaddingOnlyAppends ==
  IsAddrs => \A k \in DOMAIN inp.rows :
     LET r == inp.rows[k] IN
     \E j \in DOMAIN out.nics[r.name] :
        LET o == out.nics[r.name][j] IN
        /\ o.family = FamName(r.fam) /\ o.netmask = r.mask /\ o.broadcast = r.bcast /\ o.ptp = r.ptp
        /\ Len(o.address) >= Len(r.addr)
        /\ SubSeq(o.address, 1, Len(r.addr)) = r.addr
        /\ \A g \in (Len(r.addr) + 1)..Len(o.address) : o.address[g] = "00" /\ r.fam = 17 /\ Len(o.address) = 6
NoRowLost ==
  IsAddrs => \A n \in DOMAIN out.nics : Len(out.nics[n]) = Cardinality({k \in DOMAIN inp.rows : inp.rows[k].name = n})

IsUsers == Done /\ inp.fam = "users"
OneRowPerLogin ==
  IsUsers => /\ Len(out.rows) = Len(inp.recs)
             /\ \A k \in DOMAIN inp.recs :
                  /\ (out.rows[k].terminal = "None") <=> (inp.recs[k].tty = "")
                  /\ out.rows[k].name = inp.recs[k].user /\ out.rows[k].host = inp.recs[k].host
                  /\ out.rows[k].started = inp.recs[k].tstamp /\ out.rows[k].pid = inp.recs[k].pid

\* only the event is consumed by the replayer (functional.events_of): keep the line short
DumpL == PrintT(<<"TR", "s", ToJson(ev'), "t", TLCGet("level")>>)
=============================================================================

------------------------------ MODULE Kernel ------------------------------
(***************************************************************************)
(* The part of the Linux kernel interface psutil's process-identity logic  *)
(* consumes: a process table indexed by PID whose slots are recycled, a    *)
(* per-boot incarnation counter (ghost truth: "which process is this"),    *)
(* start ticks since boot, an uptime clock, and the published boot time    *)
(* (the btime line of /proc/stat) which a wall-clock step changes.         *)
(*                                                                         *)
(* This module is EXTENDed by the psutil-side modules; it declares the     *)
(* kernel variables and the kernel's own transitions.  `simkernel` (the    *)
(* Python side) keeps the same variables.                                  *)
(***************************************************************************)
EXTENDS Naturals, Integers, FiniteSets

CONSTANTS Pids,      \* PIDs the kernel may hand out (may contain 0)
          MaxInc,    \* bound on the number of processes ever created
          MaxUp,     \* bound on the uptime clock
          Boots      \* values the published boot time may take

VARIABLES table,     \* [Pids -> [inc, start, st]]  inc = 0: slot free
          nextInc,   \* incarnation given to the next spawned process
          uptime,    \* ticks since boot
          lastStart, \* [Pids -> Int] start tick of the slot's last owner
          btime      \* published boot time

kvars == <<table, nextInc, uptime, lastStart, btime>>

NoProc == [inc |-> 0, start |-> 0, st |-> "-"]

Live(p)   == table[p].inc # 0           \* listed in /proc (running or zombie)
Zombie(p) == table[p].st = "Z"

KInit == /\ table = [p \in Pids |-> NoProc]
         /\ nextInc = 1
         /\ uptime = 0
         /\ lastStart = [p \in Pids |-> -1]
         /\ btime \in Boots

\* A PID is never recycled within one clock tick (the documented assumption
\* of Process._get_ident): the new owner's start tick is strictly greater.
KSpawn(p) == /\ ~Live(p)
             /\ nextInc <= MaxInc
             /\ uptime > lastStart[p]
             /\ table' = [table EXCEPT ![p] = [inc |-> nextInc, start |-> uptime, st |-> "R"]]
             /\ nextInc' = nextInc + 1
             /\ lastStart' = [lastStart EXCEPT ![p] = uptime]
             /\ UNCHANGED <<uptime, btime>>

KExit(p) == /\ Live(p) /\ table[p].st = "R"
            /\ table' = [table EXCEPT ![p].st = "Z"]
            /\ UNCHANGED <<nextInc, uptime, lastStart, btime>>

KReap(p) == /\ Live(p) /\ table[p].st = "Z"
            /\ table' = [table EXCEPT ![p] = NoProc]
            /\ UNCHANGED <<nextInc, uptime, lastStart, btime>>

KTick == /\ uptime < MaxUp
         /\ uptime' = uptime + 1
         /\ UNCHANGED <<table, nextInc, lastStart, btime>>

\* settimeofday()/NTP step: the kernel's btime line changes, nothing else.
KClockStep(b) == /\ b \in Boots /\ b # btime
                 /\ btime' = b
                 /\ UNCHANGED <<table, nextInc, uptime, lastStart>>

KTypeOK == /\ \A p \in Pids : table[p].inc \in 0..MaxInc
           /\ nextInc \in 1..(MaxInc + 1)
           /\ uptime \in 0..MaxUp
           /\ btime \in Boots

\* No two listed processes share an incarnation; incarnations are never reused.
KUniqueInc == \A p, q \in Pids : (Live(p) /\ Live(q) /\ table[p].inc = table[q].inc) => p = q
=============================================================================

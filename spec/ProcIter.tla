------------------------------ MODULE ProcIter ------------------------------
(***************************************************************************)
(* psutil.pids(), psutil.pid_exists(), psutil.process_iter() and its       *)
(* module-level cache (_pmap, _pids_reused).                               *)
(*                                                                         *)
(* process_iter() is a generator: nothing runs until the first next(); the *)
(* first next() copies the global map, lists /proc, drops gone and         *)
(* recycled entries, sorts; every further step visits one PID (creating a  *)
(* Process for a new PID, which may have vanished meanwhile); exhaustion    *)
(* or close() runs the `finally` that writes the local map back.  Kernel   *)
(* events happen between steps.  Several iterators may be alive at once.   *)
(*                                                                         *)
(* Ghost `cur[pid]` is the object the statement says the cache must hold:  *)
(* set by a yield, dropped when an iteration's listing lacks the PID, when *)
(* is_running() reports the PID recycled, and by cache_clear().            *)
(***************************************************************************)
EXTENDS Kernel, Sequences, TLC, Json

CONSTANTS Iters,         \* iterator slots
          MaxObj,        \* bound on Process objects ever created
          Tids,          \* thread ids (disjoint from Pids), all threads of TidOwnerPid
          TidOwnerPid,
          Probe,         \* integers pid_exists() is asked about besides Pids/Tids
          AttrIters,     \* iterators called with attrs that are read from /proc (e.g. ["pid", "status"])
          Fixes,         \* {"C04drain"}: drain _pids_reused before diffing
          KnownFindings  \* e.g. {"C04-reused-skipped"}

VARIABLES tids,        \* threads currently existing (subset of Tids)
          gpmap,       \* psutil._pmap : [Pids -> object id | 0]
          pidsReused,  \* psutil._pids_reused
          obj,         \* [1..MaxObj -> [pid, forInc, start, gone, reused]]
          nextObj,
          it,          \* [Iters -> iterator record]
          cur,         \* ghost: [Pids -> object id | 0]
          dirty,       \* ghost: some iterations overlapped since the last clean point
          first,       \* iterator whose first next() is under way (0 = none): the
                       \* listing is done, the first visit is not; only kernel
                       \* events can happen in between (it is one call)
          ev

vars == <<kvars, tids, gpmap, pidsReused, obj, nextObj, it, cur, dirty, first, ev>>
view == <<kvars, tids, gpmap, pidsReused, obj, nextObj, it, cur, dirty, first>>

NoObj == [pid |-> -1, forInc |-> 0, start |-> 0, gone |-> FALSE, reused |-> FALSE]
Idle  == [phase |-> "idle", lpmap |-> [p \in Pids |-> 0], todo |-> <<>>, listing |-> {},
          must |-> {}, last |-> -1, excused |-> {}, want |-> [p \in Pids |-> 0], det |-> {}]

Listing == {p \in Pids : Live(p)}
Active(k) == it[k].phase = "run"

\* ascending sequence of a set of integers
AscSeq(S) ==
  LET F[T \in SUBSET S] ==
        IF T = {} THEN <<>>
        ELSE LET m == CHOOSE x \in T : \A y \in T : x <= y IN <<m>> \o F[T \ {m}]
  IN F[S]

Init == /\ KInit
        /\ tids = {}
        /\ gpmap = [p \in Pids |-> 0]
        /\ pidsReused = {}
        /\ obj = [o \in 1..MaxObj |-> NoObj]
        /\ nextObj = 1
        /\ it = [k \in Iters |-> Idle]
        /\ cur = [p \in Pids |-> 0]
        /\ dirty = FALSE
        /\ first = 0
        /\ ev = [op |-> "init"]

(* ---------------- kernel ------------------------------------------------ *)
psUnch == UNCHANGED <<gpmap, pidsReused, obj, nextObj, cur, dirty, first>>

Spawn(p) == KSpawn(p) /\ psUnch /\ UNCHANGED <<tids, it>>
            /\ ev' = [op |-> "k_spawn", pid |-> p, start |-> uptime, inc |-> nextInc]
Exit(p)  == KExit(p) /\ psUnch /\ UNCHANGED it
            /\ tids' = {t \in tids : TidOwnerPid # p}
            /\ ev' = [op |-> "k_exit", pid |-> p]
\* a reaped process may legitimately be skipped by iterations in flight
Reap(p)  == KReap(p) /\ psUnch /\ UNCHANGED tids
            /\ it' = [k \in Iters |-> [it[k] EXCEPT !.must = @ \ {p}]]
            /\ ev' = [op |-> "k_reap", pid |-> p]
Tick     == KTick /\ psUnch /\ UNCHANGED <<tids, it>> /\ ev' = [op |-> "k_tick"]
ThreadStart(t) == /\ t \in Tids \ tids /\ Live(TidOwnerPid) /\ table[TidOwnerPid].st = "R"
                  /\ tids' = tids \cup {t}
                  /\ ev' = [op |-> "k_thread", tid |-> t, pid |-> TidOwnerPid]
                  /\ psUnch /\ UNCHANGED <<kvars, it>>

(* ---------------- pids() / pid_exists() --------------------------------- *)
PidsCall == /\ first = 0
            /\ ev' = [op |-> "pids", res |-> AscSeq(Listing)]
            /\ psUnch /\ UNCHANGED <<kvars, tids, it>>

\* os.kill(n, 0) succeeds for PIDs and TIDs alike; the Tgid line of
\* /proc/n/status tells them apart
\* Probe values 98 and 99 stand for integers that do not fit pid_t (2^31, 2^64),
\* 97 for a negative integer (cfg files cannot spell one).
Big == {98, 99}
PidExists(n) ==
  /\ first = 0
  /\ ev' = [op |-> "pid_exists", n |-> n,
            res |-> IF n = 97 THEN "False"
                    ELSE IF n \in Big
                      THEN (IF "C04overflow" \in Fixes THEN "False" ELSE "OverflowError")
                    ELSE IF n \in tids THEN "False"           \* kill(0) ok, Tgid # n
                    ELSE IF n \in Pids /\ Live(n) THEN "True" ELSE "False",
            truth |-> IF n \in Pids /\ Live(n) THEN "True" ELSE "False"]
  /\ psUnch /\ UNCHANGED <<kvars, tids, it>>

(* ---------------- process_iter() ---------------------------------------- *)
\* first next(): copy, list, diff, drop gone, drain reused, sort
IterStart(k) ==
  /\ it[k].phase = "idle" /\ first = 0
  /\ first' = k
  /\ LET L     == Listing
         keys  == {p \in Pids : gpmap[p] # 0}
         newp  == IF "C04drain" \in Fixes THEN L \ (keys \ pidsReused) ELSE L \ keys
         lp    == [p \in Pids |-> IF p \in L /\ p \notin pidsReused THEN gpmap[p] ELSE 0]
         todo  == AscSeq({p \in Pids : lp[p] # 0} \cup newp)
         skip  == (L \cap pidsReused) \ newp      \* listed, evicted and not re-added
     IN /\ it' = [it EXCEPT ![k] = [phase |-> "run", lpmap |-> lp, todo |-> todo,
                                    listing |-> L, must |-> L, last |-> -1,
                                    excused |-> skip, det |-> {},
                                    want |-> [p \in Pids |-> IF p \in L THEN cur[p] ELSE 0]]]
        /\ pidsReused' = {}
        /\ cur' = [p \in Pids |-> IF p \in L THEN cur[p] ELSE 0]
        /\ dirty' = (dirty \/ \E j \in Iters \ {k} : Active(j))
        /\ ev' = [op |-> "it_start", k |-> k, listing |-> L]
  /\ UNCHANGED <<kvars, tids, gpmap, obj, nextObj>>

\* One next(): PIDs that are new to the cache and have vanished since the
\* listing are swallowed (NoSuchProcess from the constructor) without
\* suspending the generator; the first other one is yielded.
\* With attrs that are read from /proc the same happens to a CACHED entry whose
\* process has vanished since the listing: as_dict() raises NoSuchProcess, the
\* entry is dropped from the iterator's map and the PID is skipped.
Swallowed(k, p) == IF it[k].lpmap[p] # 0 THEN k \in AttrIters /\ ~Live(p) ELSE ~Live(p)
RECURSIVE Adv(_, _)
Adv(k, todo) == IF todo = <<>> THEN <<>>
                ELSE IF ~Swallowed(k, Head(todo)) THEN todo
                ELSE Adv(k, Tail(todo))
\* cached entries swallowed by the next step of iterator k
CachedSkipped(k) ==
  LET t == it[k].todo  n == Len(t) - Len(Adv(k, t))
  IN {t[i] : i \in 1..n} \cap {q \in Pids : it[k].lpmap[q] # 0}
Pruned(k) == [q \in Pids |-> IF q \in CachedSkipped(k) THEN 0 ELSE it[k].lpmap[q]]

IterStep(k) ==
  /\ Active(k) /\ first \in {0, k}
  /\ Adv(k, it[k].todo) # <<>>
  /\ first' = 0
  /\ LET adv == Adv(k, it[k].todo)  p == Head(adv)  rest == Tail(adv)  o == it[k].lpmap[p] IN
     IF o # 0
       THEN \* cached: yielded as is
            /\ it' = [it EXCEPT ![k].todo = rest, ![k].last = p, ![k].lpmap = Pruned(k)]
            /\ cur' = [q \in Pids |-> IF q \in CachedSkipped(k) THEN 0
                                      ELSE IF q = p /\ p \notin it[k].det THEN o ELSE cur[q]]
            /\ ev' = [op |-> "it_step", k |-> k, pid |-> p, res |-> "yield", o |-> o,
                      fresh |-> FALSE, want |-> it[k].want[p], prev |-> it[k].last,
                      inL |-> (p \in it[k].listing), dirty |-> dirty]
            /\ UNCHANGED <<obj, nextObj>>
       ELSE /\ nextObj <= MaxObj
            /\ obj' = [obj EXCEPT ![nextObj] = [pid |-> p, forInc |-> table[p].inc,
                                               start |-> table[p].start,
                                               gone |-> FALSE, reused |-> FALSE]]
            /\ nextObj' = nextObj + 1
            /\ it' = [it EXCEPT ![k].todo = rest, ![k].last = p, ![k].lpmap = [Pruned(k) EXCEPT ![p] = nextObj]]
            /\ cur' = [q \in Pids |-> IF q \in CachedSkipped(k) THEN 0
                                      ELSE IF q = p /\ p \notin it[k].det THEN nextObj ELSE cur[q]]
            /\ ev' = [op |-> "it_step", k |-> k, pid |-> p, res |-> "yield", o |-> nextObj,
                      fresh |-> TRUE, want |-> it[k].want[p], prev |-> it[k].last,
                      inL |-> (p \in it[k].listing), dirty |-> dirty]
  /\ UNCHANGED <<kvars, tids, gpmap, pidsReused, dirty>>

\* After a period in which iterations overlapped (or the cache was cleared
\* under a running iteration) the statement demands nothing about the cache
\* content; when the last iterator ends, whatever it wrote back becomes the
\* new baseline of the ghost.
Resync(k) ==
  IF dirty /\ ~\E j \in Iters \ {k} : Active(j)
    THEN cur' = [p \in Pids |-> IF p \in pidsReused THEN 0 ELSE it[k].lpmap[p]] /\ dirty' = FALSE
    ELSE UNCHANGED <<cur, dirty>>

\* StopIteration: the `finally` writes the local map back
IterFinish(k) ==
  /\ Active(k) /\ first \in {0, k}
  /\ Adv(k, it[k].todo) = <<>>
  /\ first' = 0
  /\ gpmap' = Pruned(k)
  /\ it' = [it EXCEPT ![k] = Idle]
  /\ IF dirty /\ ~\E j \in Iters \ {k} : Active(j)
       THEN cur' = [p \in Pids |-> IF p \in pidsReused THEN 0 ELSE Pruned(k)[p]] /\ dirty' = FALSE
       ELSE cur' = [q \in Pids |-> IF q \in CachedSkipped(k) THEN 0 ELSE cur[q]] /\ UNCHANGED dirty
  /\ ev' = [op |-> "it_finish", k |-> k,
            missed |-> (it[k].must \ {p \in Pids : Pruned(k)[p] # 0}) ,
            excused |-> it[k].excused, dirty |-> dirty,
            keys |-> {p \in Pids : Pruned(k)[p] # 0}, listing |-> it[k].listing]
  /\ UNCHANGED <<kvars, tids, pidsReused, obj, nextObj>>

\* generator closed / garbage collected before exhaustion: same `finally`
IterClose(k) ==
  /\ Active(k) /\ first = 0
  /\ gpmap' = it[k].lpmap
  /\ it' = [it EXCEPT ![k] = Idle]
  /\ Resync(k)
  /\ ev' = [op |-> "it_close", k |-> k]
  /\ UNCHANGED <<kvars, tids, pidsReused, obj, nextObj, first>>

CacheClear ==
  /\ gpmap' = [p \in Pids |-> 0]
  /\ cur' = [p \in Pids |-> 0]
  /\ dirty' = (dirty \/ \E k \in Iters : Active(k))
  /\ first = 0
  /\ ev' = [op |-> "cache_clear", inflight |-> \E k \in Iters : Active(k)]
  /\ UNCHANGED <<kvars, tids, pidsReused, obj, nextObj, it, first>>

\* psutil.Process(p) built by the user: an object the cache knows nothing about
NewObj(p) ==
  /\ first = 0 /\ Live(p) /\ nextObj <= MaxObj
  /\ obj' = [obj EXCEPT ![nextObj] = [pid |-> p, forInc |-> table[p].inc, start |-> table[p].start,
                                     gone |-> FALSE, reused |-> FALSE]]
  /\ nextObj' = nextObj + 1
  /\ ev' = [op |-> "new", pid |-> p, o |-> nextObj]
  /\ UNCHANGED <<kvars, tids, gpmap, pidsReused, it, cur, dirty, first>>

\* is_running() on any object ever yielded or built (the user may hold them all)
IsRunning(o) ==
  /\ o < nextObj /\ first = 0
  /\ LET ob == obj[o]  p == ob.pid IN
     IF ob.gone \/ ob.reused
       THEN /\ ev' = [op |-> "is_running", o |-> o, res |-> FALSE]
            /\ UNCHANGED <<obj, pidsReused, cur, it>>
     ELSE IF ~Live(p)
       THEN /\ obj' = [obj EXCEPT ![o].gone = TRUE]
            /\ ev' = [op |-> "is_running", o |-> o, res |-> FALSE]
            /\ UNCHANGED <<pidsReused, cur, it>>
     ELSE IF table[p].start # ob.start
       THEN /\ obj' = [obj EXCEPT ![o].gone = TRUE, ![o].reused = TRUE]
            /\ pidsReused' = pidsReused \cup {p}
            /\ cur' = [cur EXCEPT ![p] = 0]
            /\ it' = [k \in Iters |-> IF Active(k) THEN [it[k] EXCEPT !.det = @ \cup {p}] ELSE it[k]]
            /\ ev' = [op |-> "is_running", o |-> o, res |-> FALSE]
       ELSE /\ ev' = [op |-> "is_running", o |-> o, res |-> TRUE]
            /\ UNCHANGED <<obj, pidsReused, cur, it>>
  /\ UNCHANGED <<kvars, tids, gpmap, nextObj, dirty, first>>

Next == \/ \E p \in Pids : Spawn(p) \/ Exit(p) \/ Reap(p)
        \/ Tick
        \/ \E t \in Tids : ThreadStart(t)
        \/ PidsCall
        \/ \E n \in Pids \cup Tids \cup Probe : PidExists(n)
        \/ \E k \in Iters : IterStart(k) \/ IterStep(k) \/ IterFinish(k) \/ IterClose(k)
        \/ CacheClear
        \/ \E p \in Pids : NewObj(p)
        \/ \E o \in 1..MaxObj : IsRunning(o)

Spec == Init /\ [][Next]_vars

(* ---------------- properties -------------------------------------------- *)
\* strictly ascending PIDs, all taken from the iteration's own listing
C04_Order == [][(ev'.op = "it_step" /\ ev'.res = "yield") => (ev'.pid > ev'.prev /\ ev'.inL)]_vars

\* every listed PID that stayed alive is yielded (recycled-PID eviction signed)
C04_Complete ==
  [][(ev'.op = "it_finish" /\ ~ev'.dirty) =>
       \/ ev'.missed = {}
       \/ ("C04-reused-skipped" \in KnownFindings /\ ev'.missed \subseteq ev'.excused)]_vars

\* same object while the PID stays listed; fresh one after eviction / clear
C04_Identity ==
  [][(ev'.op = "it_step" /\ ev'.res = "yield" /\ ~ev'.dirty) =>
       IF ev'.want # 0 THEN ev'.o = ev'.want ELSE ev'.fresh]_vars

\* cache keys after a completed iteration are a subset of its listing
C04_Keys == [][ev'.op = "it_finish" => ev'.keys \subseteq ev'.listing]_vars

\* pid_exists(n) is True exactly for listed PIDs
C04_PidExists == [][ev'.op = "pid_exists" => ev'.res = ev'.truth]_vars

TypeOK == KTypeOK /\ nextObj \in 1..(MaxObj + 1) /\ pidsReused \subseteq Pids

\* canonical rendering for the dump: sets as ascending sequences
viewJ == <<kvars, AscSeq(tids), gpmap, AscSeq(pidsReused), obj, nextObj,
           [k \in Iters |-> [it[k] EXCEPT !.listing = AscSeq(@), !.must = AscSeq(@),
                                          !.excused = AscSeq(@), !.det = AscSeq(@)]],
           cur, dirty, first>>
DumpL == PrintT(<<"TR", ToJson(viewJ), ToJson(ev'), ToJson(viewJ'), TLCGet("level")>>)
=============================================================================

----------------------------- MODULE IoCounters -----------------------------
(***************************************************************************)
(* C09 -- what net_io_counters(), disk_io_counters() and disk_usage() must *)
(* report given the abstract content of /proc/net/dev, of /proc/diskstats  *)
(* (+ the set of whole disks under /sys/block) and of a statvfs() result.  *)
(*                                                                         *)
(* "Spec as oracle": Init ranges over the abstract input space, the single *)
(* action Observe publishes F(input).  Inputs are kernel tables at the     *)
(* level of fields:                                                        *)
(*   net   : interface name -> the 16 columns of its line                  *)
(*   disk  : device name -> [layout (number of fields of its line),        *)
(*           blocks (the extra #blocks column of the 2.4 layout),          *)
(*           c (the counters of that layout, in the kernel's order)]       *)
(*           + sysblock, the names that have a /sys/block/<name> entry     *)
(*   usage : the statvfs quadruple blocks, bfree, bavail, frsize           *)
(* Outputs are exact integers; the percentage is the exact rational        *)
(* <<num, den>> (den = 0: undefined).  Counters are small symbolic         *)
(* integers; every formula below is homogeneous of degree one in the       *)
(* counters (UsageScaleFree states it for the only quotient), so the       *)
(* harness multiplies inputs and expected outputs by a scale of up to      *)
(* (2^64-1)/kmax without changing the verdict.                             *)
(***************************************************************************)
EXTENDS Naturals, Integers, Sequences, FiniteSets, TLC, Json

CONSTANTS Nics,        \* interface names in use, a subset of NicNames (":" and digits allowed)
          MaxNics,     \* every subset of at most MaxNics interfaces is enumerated
          NetFmts,     \* line renderings: "modern" ("%6s: %7llu ..."), "old" ("%6s:%8lu ...", no blank after ':')
          Disks,       \* block device names in use, a subset of DiskNames ("/" allowed)
          MaxDevs,     \* every subset of at most MaxDevs devices is enumerated
          Gens,        \* kernel generations, each fixing the layout of disk and partition lines
          MaxBlocks,   \* statvfs: 0 <= bavail <= bfree <= blocks <= MaxBlocks
          FrSizes      \* statvfs: fragment sizes

VARIABLES inp, out, ev
vars == <<inp, out, ev>>

None    == [none |-> TRUE]
Pending == [pending |-> TRUE]

RECURSIVE Sum(_, _)
Sum(S, f) == IF S = {} THEN 0
             ELSE LET x == CHOOSE y \in S : TRUE IN f[x] + Sum(S \ {x}, f)

Has(seq, x)     == \E k \in 1..Len(seq) : seq[k] = x
IndexOf(seq, x) == CHOOSE k \in 1..Len(seq) : seq[k] = x
Restrict(f, S)  == [x \in S |-> f[x]]
SubsetsUpTo(S, n) == {T \in SUBSET S : Cardinality(T) <= n}

(* ======================= /proc/net/dev ================================= *)
\* the kernel's columns, in the order net/core/net-procfs.c prints them
NetCols == << "rx_bytes", "rx_packets", "rx_errs", "rx_drop", "rx_fifo", "rx_frame",
              "rx_compressed", "rx_multicast",
              "tx_bytes", "tx_packets", "tx_errs", "tx_drop", "tx_fifo", "tx_colls",
              "tx_carrier", "tx_compressed" >>

\* documented field of snetio -> kernel column
NetDoc == [ bytes_sent   |-> "tx_bytes",   bytes_recv   |-> "rx_bytes",
            packets_sent |-> "tx_packets", packets_recv |-> "rx_packets",
            errin        |-> "rx_errs",    errout       |-> "tx_errs",
            dropin       |-> "rx_drop",    dropout      |-> "tx_drop" ]
NetFieldNames == DOMAIN NetDoc
NetIn  == {"bytes_recv", "packets_recv", "errin", "dropin"}
NetOut == {"bytes_sent", "packets_sent", "errout", "dropout"}

NetCol(line, c)  == line[IndexOf(NetCols, c)]
NetFields(line)  == [f \in NetFieldNames |-> NetCol(line, NetDoc[f])]

NetF(tab) ==
  LET names == DOMAIN tab IN
  [ pernic |-> [n \in names |-> NetFields(tab[n])],
    \* the system-wide form, taken from the kernel table directly
    total  |-> IF names = {} THEN None
               ELSE [f \in NetFieldNames |-> Sum(names, [n \in names |-> NetCol(tab[n], NetDoc[f])])] ]

(* ======================= /proc/diskstats =============================== *)
SectorSize == 512

\* counters of a line, in the kernel's order (Documentation/admin-guide/iostats.rst)
Full11 == << "rd_ios", "rd_merges", "rd_sectors", "rd_ticks",
             "wr_ios", "wr_merges", "wr_sectors", "wr_ticks",
             "in_flight", "io_ticks", "time_in_queue" >>
Disc4  == << "dc_ios", "dc_merges", "dc_sectors", "dc_ticks" >>
Flush2 == << "fl_ios", "fl_ticks" >>
Part4  == << "rd_ios", "rd_sectors", "wr_ios", "wr_sectors" >>   \* 2.6.0-2.6.24 partition line

\* layout = number of blank-separated fields of the line
Layouts == {15, 14, 18, 20, 7}
Slots(layout) == CASE layout = 15 -> Full11                    \* major minor #blocks name + 11 (Linux 2.4)
                   [] layout = 14 -> Full11                    \* major minor name + 11
                   [] layout = 18 -> Full11 \o Disc4           \* 4.18+
                   [] layout = 20 -> Full11 \o Disc4 \o Flush2 \* 5.5+
                   [] layout = 7  -> Part4
\* leading columns before the counters
Lead(layout) == IF layout = 15 THEN 4 ELSE 3

\* which layout a kernel generation uses for a disk / a partition line
LayoutOf(gen, ispart) == CASE gen = "2.4"    -> 15
                           [] gen = "2.6.0"  -> IF ispart THEN 7 ELSE 14
                           [] gen = "2.6.25" -> 14
                           [] gen = "4.18"   -> 18
                           [] gen = "5.5"    -> 20

\* documented field of sdiskio -> kernel counter
DiskDoc == [ read_count |-> "rd_ios",      write_count |-> "wr_ios",
             read_bytes |-> "rd_sectors",  write_bytes |-> "wr_sectors",
             read_time  |-> "rd_ticks",    write_time  |-> "wr_ticks",
             read_merged_count |-> "rd_merges", write_merged_count |-> "wr_merges",
             busy_time  |-> "io_ticks" ]
DiskFieldNames == DOMAIN DiskDoc
InSectors == {"read_bytes", "write_bytes"}

\* the counter named s of device record d; a counter the layout lacks reads 0
Ctr(d, s) == IF Has(Slots(d.layout), s) THEN d.c[IndexOf(Slots(d.layout), s)] ELSE 0
DiskFields(d) == [f \in DiskFieldNames |->
                    IF f \in InSectors THEN Ctr(d, DiskDoc[f]) * SectorSize ELSE Ctr(d, DiskDoc[f])]

WholeDisks(i) == (DOMAIN i.devs) \cap i.sysblock

DiskF(i) ==
  LET names == DOMAIN i.devs
      whole == WholeDisks(i) IN
  [ perdisk |-> [n \in names |-> DiskFields(i.devs[n])],
    \* system-wide: whole disks only; nothing to add up -> None
    total   |-> IF whole = {} THEN None
                ELSE [f \in DiskFieldNames |-> Sum(whole, [n \in whole |-> DiskFields(i.devs[n])[f]])] ]

(* ======================= statvfs -> disk_usage ========================= *)
UsageF(i) ==
  LET total == i.blocks * i.frsize
      used  == (i.blocks - i.bfree) * i.frsize      \* total - free-for-root
      free  == i.bavail * i.frsize                  \* available to unprivileged users
  IN [ total |-> total, used |-> used, free |-> free,
       percent |-> <<100 * used, used + free>> ]    \* exact rational, den = 0: undefined

(* ======================= the oracle ==================================== *)
F(i) == CASE i.kind = "net"   -> NetF(i.tab)
          [] i.kind = "disk"  -> DiskF(i)
          [] i.kind = "usage" -> UsageF(i)

(* ---- enumerated input space: a distinct value in every slot ----------- *)
\* the universes (a cfg file cannot hold a sequence; the position is the
\* device's index, from which its distinct counter values derive)
NicNames   == << "lo", "eth0", "eth0:1", "wlp3s0", "br-5f2a", "bond0.100" >>
DiskNames  == << "sda", "sda1", "nvme0n1", "nvme0n1p1", "loop0", "cciss/c0d0", "cciss/c0d0p1",
                 "dm-0", "mmcblk0p1" >>
Partitions == {"sda1", "nvme0n1p1", "cciss/c0d0p1", "mmcblk0p1"}   \* no /sys/block entry of their own
ASSUME Nics \subseteq {NicNames[i] : i \in 1..Len(NicNames)}
ASSUME Disks \subseteq {DiskNames[i] : i \in 1..Len(DiskNames)}

NetLine(i) == [k \in 1..16 |-> 20 * i + k]
NetInputs ==
  { [kind |-> "net", fmt |-> fm,
     tab |-> [n \in I |-> NetLine(IndexOf(NicNames, n))]]
    : I \in SubsetsUpTo(Nics, MaxNics), fm \in NetFmts }

DevRec(i, gen) ==
  LET lay == LayoutOf(gen, DiskNames[i] \in Partitions) IN
  [ layout |-> lay, blocks |-> 32 * i + 30,
    c |-> [k \in 1..Len(Slots(lay)) |-> 32 * i + k] ]
DiskInputs ==
  { [kind |-> "disk", gen |-> g,
     devs |-> [n \in D |-> DevRec(IndexOf(DiskNames, n), g)],
     sysblock |-> D \ Partitions]
    : D \in SubsetsUpTo(Disks, MaxDevs), g \in Gens }

UsageInputs ==
  { [kind |-> "usage", blocks |-> b, bfree |-> f, bavail |-> a, frsize |-> s]
    : b \in 0..MaxBlocks, f \in 0..MaxBlocks, a \in 0..MaxBlocks, s \in FrSizes }
UsageOk(i) == i.bavail <= i.bfree /\ i.bfree <= i.blocks

Inputs == NetInputs \cup DiskInputs \cup {i \in UsageInputs : UsageOk(i)}

Init == /\ inp \in Inputs
        /\ out = Pending
        /\ ev = [op |-> "init"]

Observe == /\ out = Pending
           /\ out' = F(inp)
           /\ inp' = inp
           /\ ev' = [op |-> "observe", inp |-> inp, out |-> F(inp)]

Next == Observe
Spec == Init /\ [][Next]_vars

(* ======== structural facts about F, checked over the whole space ======= *)
Done == out # Pending
IsNet   == Done /\ inp.kind = "net"
IsDisk  == Done /\ inp.kind = "disk"
IsUsage == Done /\ inp.kind = "usage"
OrZero(t, f) == IF t = None THEN 0 ELSE t[f]

\* exactly the listed interfaces; None exactly when nothing is listed
NetDomain == IsNet => /\ DOMAIN out.pernic = DOMAIN inp.tab
                      /\ (out.total = None) <=> (DOMAIN inp.tab = {})

\* conservation: the system-wide form is the field-wise sum of the per-interface form
NetConservation ==
  IsNet => \A f \in NetFieldNames :
             OrZero(out.total, f) = Sum(DOMAIN inp.tab, [n \in DOMAIN inp.tab |-> out.pernic[n][f]])

\* an interface's answer does not depend on which other interfaces exist, and
\* removing one interface removes exactly its contribution from the total
NetIndependent ==
  IsNet => \A n \in DOMAIN inp.tab :
             LET others == DOMAIN inp.tab \ {n}
                 alone  == NetF(Restrict(inp.tab, {n}))
                 rest   == NetF(Restrict(inp.tab, others)) IN
             /\ alone.pernic[n] = out.pernic[n]
             /\ alone.total = out.pernic[n]
             /\ \A m \in others : rest.pernic[m] = out.pernic[m]
             /\ \A f \in NetFieldNames : out.total[f] = out.pernic[n][f] + OrZero(rest.total, f)

\* the eight undocumented columns never influence an answer
NetMask(line) == [k \in 1..16 |-> IF \E f \in NetFieldNames : NetDoc[f] = NetCols[k] THEN line[k] ELSE 0]
NetUnusedIgnored ==
  IsNet => NetF([n \in DOMAIN inp.tab |-> NetMask(inp.tab[n])]) = out

\* no two documented fields read the same column; "in"/"recv" fields read
\* receive columns (1..8), "out"/"sent" fields transmit columns (9..16)
NetDistinct ==
  IsNet => /\ \A n \in DOMAIN inp.tab : Cardinality({out.pernic[n][f] : f \in NetFieldNames}) = 8
           /\ \A f \in NetIn  : IndexOf(NetCols, NetDoc[f]) \in 1..8
           /\ \A f \in NetOut : IndexOf(NetCols, NetDoc[f]) \in 9..16
           /\ NetIn \cup NetOut = NetFieldNames

\* ---- disks
\* the record is well-formed: its layout is the number of fields of its line
DiskLineLength ==
  IsDisk => \A n \in DOMAIN inp.devs :
              LET d == inp.devs[n] IN d.layout \in Layouts /\ Lead(d.layout) + Len(d.c) = d.layout

DiskDomain == IsDisk => /\ DOMAIN out.perdisk = DOMAIN inp.devs
                        /\ (out.total = None) <=> (WholeDisks(inp) = {})

\* nothing is counted twice: the totals are those of the listing with every
\* partition line deleted, and never exceed the sum over every listed line
DiskNoDoubleCount ==
  IsDisk => LET w == WholeDisks(inp) IN
            /\ DiskF([inp EXCEPT !.devs = Restrict(inp.devs, w)]).total = out.total
            /\ \A f \in DiskFieldNames :
                 /\ OrZero(out.total, f) = Sum(w, [n \in w |-> out.perdisk[n][f]])
                 /\ OrZero(out.total, f) <= Sum(DOMAIN inp.devs, [n \in DOMAIN inp.devs |-> out.perdisk[n][f]])

\* a device's answer depends on its own line only
DiskIndependent ==
  IsDisk => \A n \in DOMAIN inp.devs :
              DiskF([inp EXCEPT !.devs = Restrict(inp.devs, {n})]).perdisk[n] = out.perdisk[n]

\* the same eleven counters give the same answer in every layout that carries them
DiskLayoutAgnostic ==
  IsDisk => \A n \in DOMAIN inp.devs :
              LET d == inp.devs[n] IN
              d.layout # 7 =>
                \A l \in {15, 14, 18, 20} :
                  DiskFields([layout |-> l, blocks |-> 0,
                              c |-> [k \in 1..Len(Slots(l)) |-> IF k <= 11 THEN d.c[k] ELSE 0]]) = out.perdisk[n]

\* the short partition line: its four counters are reported, the rest reads 0
DiskPartitionLine ==
  IsDisk => \A n \in DOMAIN inp.devs :
              LET d == inp.devs[n] o == out.perdisk[n] IN
              d.layout = 7 =>
                /\ <<o.read_count, o.read_bytes, o.write_count, o.write_bytes>>
                     = <<d.c[1], d.c[2] * SectorSize, d.c[3], d.c[4] * SectorSize>>
                /\ \A f \in DiskFieldNames \ {"read_count", "read_bytes", "write_count", "write_bytes"} : o[f] = 0

\* distinct slots stay distinct: no two documented fields read one counter
DiskDistinct ==
  IsDisk => \A n \in DOMAIN inp.devs :
              inp.devs[n].layout # 7 => Cardinality({out.perdisk[n][f] : f \in DiskFieldNames}) = 9

\* ---- disk_usage
UsageParts == IsUsage => /\ out.used + inp.bfree * inp.frsize = out.total
                         /\ out.used >= 0 /\ out.free >= 0
                         /\ out.used + out.free <= out.total

UsagePercentRange ==
  IsUsage => LET num == out.percent[1] den == out.percent[2] IN
             /\ 0 <= num /\ num <= 100 * den
             /\ (den > 0 /\ out.free = 0) => num = 100 * den
             /\ (den > 0 /\ out.used = 0) => num = 0

\* the percentage depends neither on the fragment size nor on a common factor
\* of the block counts (the justification of the harness's scaling)
UsageScaleFree ==
  IsUsage => \A k \in {2, 3} :
               LET o == UsageF([inp EXCEPT !.blocks = k * @, !.bfree = k * @, !.bavail = k * @])
                   p == UsageF([inp EXCEPT !.frsize = k * @]) IN
               /\ o.percent[1] * out.percent[2] = out.percent[1] * o.percent[2]
               /\ p.percent[1] * out.percent[2] = out.percent[1] * p.percent[2]
               /\ o.total = k * out.total /\ o.used = k * out.used /\ o.free = k * out.free

DumpL == PrintT(<<"TR", ToJson(0), ToJson(ev'), ToJson(0), TLCGet("level")>>)
=============================================================================

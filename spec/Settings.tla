------------------------------ MODULE Settings ------------------------------
(***************************************************************************)
(* C18 -- Process.nice(), ionice(), cpu_affinity(), rlimit(): the get form *)
(* returns what the kernel reports, a successful set with a valid value    *)
(* makes the kernel (and the get form) report exactly that value for that  *)
(* process and leaves every other process alone, the listed invalid        *)
(* requests raise ValueError and change nothing, cpu_affinity([]) selects  *)
(* all eligible CPUs.                                                      *)
(*                                                                         *)
(* Kernel state per process: nice, stored I/O priority (class, data),      *)
(* affinity mask (a non-empty subset of the process's eligible CPUs = its  *)
(* cpuset), resource limits (soft, hard).  Fixed per behaviour (chosen by  *)
(* Init, published by Boot): the cpusets, the processes on which the       *)
(* caller lacks permission (EPERM), whether the caller holds               *)
(* CAP_SYS_RESOURCE, and how the kernel reports I/O class NONE.            *)
(*                                                                         *)
(* Statement-shaped part: *Outcomes(p, request) = the set of <<result     *)
(* class, new value>> pairs the statement together with the kernel's own   *)
(* rules allows for a request (more than one = the statement leaves the    *)
(* outcome open).  Implementation-shaped part: Impl*(p, request) = the     *)
(* outcome psutil's validation code followed by the kernel produces.       *)
(* Follow = "statement": actions range over the allowed outcomes (this is  *)
(* the graph replayed into the real code and the monitor of               *)
(* SettingsTrace); Follow = "impl": actions take the algorithm's outcome    *)
(* and C18_ImplAllowed asks TLC whether it is always an allowed one.       *)
(***************************************************************************)
EXTENDS Naturals, Integers, Sequences, FiniteSets, TLC, Json

CONSTANTS NP,          \* processes 1..NP
          Wide,        \* processes whose requests range over the whole domains
          Active,      \* subset of {"nice", "ionice", "affinity", "rlimit"}
          NCPU,        \* CPUs 0..NCPU-1 exist; NCPU is a nonexistent CPU number
          EligSets,    \* candidate cpusets (sets of CPU numbers)
          DeniedSets,  \* candidate sets of processes the caller may not modify
          SysRes,      \* subset of BOOLEAN: caller holds CAP_SYS_RESOURCE
          Flavors,     \* subset of {"stored", "derived"}: report of I/O class NONE
          Resources,   \* modelled RLIMIT_* resources
          Capped,      \* resources with a kernel ceiling on the hard limit (NOFILE / fs.nr_open)
          CapVal,      \* that ceiling
          FiniteInit,  \* resources whose initial limits are finite (<<hi, hi>>)
          RVals,       \* finite symbolic limit values
          OpenArgs,    \* include requests whose outcome the statement leaves open
          Follow,      \* "statement" | "impl"
          Algorithm    \* "statement" | "psutil700": how Impl learns the eligible CPUs

P == 1..NP
NoArg == 99                \* an argument that was not given (None)
Inf == 1000000             \* RLIM_INFINITY
CPUs == 0..(NCPU - 1)
NiceDom == (0 - 20)..19

VARIABLES booted, elig, denied, sysres, flavor,   \* fixed per behaviour
          nice, ioprio, aff, rlim,                \* kernel state
          ev
kvars == <<nice, ioprio, aff, rlim>>
cvars == <<elig, denied, sysres, flavor>>
vars == <<booted, elig, denied, sysres, flavor, nice, ioprio, aff, rlim, ev>>
view == <<booted, elig, denied, sysres, flavor, nice, ioprio, aff, rlim>>

Range(s) == {s[i] : i \in DOMAIN s}
Min(S) == CHOOSE x \in S : \A y \in S : x <= y
Max(S) == CHOOSE x \in S : \A y \in S : x >= y
Clamp(v) == IF v < 0 - 20 THEN 0 - 20 ELSE IF v > 19 THEN 19 ELSE v
Hi == Max(RVals)
Lo == Min(RVals)
InitLim(r) == IF r \in Capped THEN <<CapVal, CapVal>>
              ELSE IF r \in FiniteInit THEN <<Hi, Hi>> ELSE <<Inf, Inf>>

(* ---------------- what the kernel reports ------------------------------- *)
\* I/O priority as ioprio_get(2) reports it: a task left in class NONE is
\* shown either as stored or (some kernels) as best-effort with the level
\* derived from its nice value
KIo(p) == IF ioprio[p][1] = 0 /\ flavor = "derived"
            THEN <<2, (nice[p] + 20) \div 5>> ELSE ioprio[p]

(* ---------------- allowed outcomes (statement + kernel rules) ----------- *)
Keep(cls, cur) == [res |-> cls, nv |-> cur]
\* a request that would succeed: refused with EPERM on a process the caller
\* may not modify
OkOr(p, v, cur) == IF p \in denied THEN {Keep("denied", cur)} ELSE {[res |-> "ok", nv |-> v]}
\* failing outcomes stay possible on such a process, and so does EPERM
\* (which of two error conditions wins is not stated)
Den(p, S, cur) == IF p \in denied THEN {o \in S : o.res # "ok"} \cup {Keep("denied", cur)} ELSE S

NiceOutcomes(p, v) ==
  LET cur == nice[p] IN
  IF v \in NiceDom THEN OkOr(p, v, cur)
  ELSE \* outside -20..19: the statement is silent; Linux clamps, refusing is allowed too
       Den(p, {[res |-> "ok", nv |-> Clamp(v)], Keep("error", cur)}, cur)

IoOutcomes(p, c, l) ==
  LET cur == ioprio[p] IN
  IF c = NoArg THEN {Keep("ValueError", cur)}                        \* a level without a class
  ELSE IF c \in {0, 3}
    THEN IF l = NoArg THEN OkOr(p, <<c, 0>>, cur)
         ELSE IF l = 0 THEN Den(p, {[res |-> "ok", nv |-> <<c, 0>>], Keep("ValueError", cur)}, cur)  \* open
         ELSE Den(p, {Keep("ValueError", cur)}, cur)                   \* a level for idle/none; or outside 0-7
  ELSE IF l = NoArg THEN Den(p, {[res |-> "ok", nv |-> <<c, x>>] : x \in 0..7}, cur)   \* level unstated: open
       ELSE IF l \in 0..7 THEN OkOr(p, <<c, l>>, cur)
       ELSE Den(p, {Keep("ValueError", cur)}, cur)                    \* outside 0-7

AffOutcomes(p, cpus) ==
  LET cur == aff[p]
      S == Range(cpus)
      E == elig[p] IN
  IF cpus = <<>> THEN OkOr(p, E, cur)                                 \* [] selects all eligible CPUs
  ELSE IF S \subseteq E THEN OkOr(p, S, cur)
  ELSE IF S \cap E = {} THEN Den(p, {Keep("ValueError", cur)}, cur)   \* only nonexistent / ineligible CPUs
  ELSE Den(p, {[res |-> "ok", nv |-> S \cap E], Keep("error", cur)}, cur)  \* mixed list: open

RlimOutcomes(p, r, lim) ==
  LET cur == rlim[p][r] IN
  IF Len(lim) # 2 THEN Den(p, {Keep("ValueError", cur)}, cur)         \* not a pair
  ELSE IF lim[1] > lim[2] THEN Den(p, {Keep("error", cur)}, cur)      \* kernel: EINVAL
  ELSE IF r \in Capped /\ lim[2] > CapVal THEN {Keep("denied", cur)}  \* kernel: EPERM above fs.nr_open
  ELSE IF ~sysres /\ lim[2] > cur[2] THEN {Keep("denied", cur)}       \* kernel: raising hard needs CAP_SYS_RESOURCE
  ELSE OkOr(p, <<lim[1], lim[2]>>, cur)

(* ---------------- the statement's own classification of requests -------- *)
\* Valid: the domain over which "a successful set makes get and kernel report
\* exactly that value" is quantified; Want: that value.  Invalid: the listed
\* requests that must raise ValueError.  Defined independently of *Outcomes.
NiceValid(v) == v \in NiceDom
IoValid(c, l) == (c \in {1, 2} /\ l \in 0..7) \/ (c \in {0, 3} /\ l = NoArg)
IoWant(c, l) == IF l = NoArg THEN <<c, 0>> ELSE <<c, l>>
IoInvalid(c, l) == \/ c = NoArg                                   \* level without a class
                   \/ (c \in {0, 3} /\ l \in 1..7)                \* level given for idle/none
                   \/ (c \in 0..3 /\ l # NoArg /\ l \notin 0..7)  \* level outside 0-7
AffValid(p, cpus) == cpus = <<>> \/ (Range(cpus) # {} /\ Range(cpus) \subseteq elig[p])
AffWant(p, cpus) == IF cpus = <<>> THEN elig[p] ELSE Range(cpus)
AffInvalid(p, cpus) == cpus # <<>> /\ Range(cpus) \cap elig[p] = {}
RlimValid(r, lim) == Len(lim) = 2 /\ lim[1] <= lim[2]
RlimInvalid(lim) == Len(lim) # 2

(* ---------------- psutil's algorithm + the kernel ------------------------ *)
\* Process._get_eligible_cpus(): 7.0.0 reads "Cpus_allowed_list" of
\* /proc/<pid>/status -- the task's CURRENT mask printed as a range list --
\* and takes the first a-b range if the line starts with one, otherwise all
\* CPUs of the system
LeadingRange(S) ==
  LET a == Min(S) IN
  IF a + 1 \in S
    THEN a..(CHOOSE b \in S : (\A x \in a..b : x \in S) /\ (b + 1 \notin S))
    ELSE CPUs
EligibleSeen(p) == IF Algorithm = "psutil700" THEN LeadingRange(aff[p]) ELSE elig[p]

ImplNice(p, v) == IF p \in denied THEN Keep("denied", nice[p])
                  ELSE [res |-> "ok", nv |-> Clamp(v)]
ImplIo(p, c, l) ==
  LET cur == ioprio[p]
      lv == IF l = NoArg THEN 0 ELSE l IN
  IF c = NoArg THEN Keep("ValueError", cur)
  ELSE IF lv # 0 /\ c \in {3, 0} THEN Keep("ValueError", cur)
  ELSE IF lv < 0 \/ lv > 7 THEN Keep("ValueError", cur)
  ELSE IF p \in denied THEN Keep("denied", cur)
  ELSE [res |-> "ok", nv |-> <<c, lv>>]
ImplAff(p, cpus) ==
  LET cur == aff[p]
      seen == EligibleSeen(p)
      req == IF cpus = <<>> THEN seen ELSE Range(cpus)       \* list(set(cpus))
      eff == req \cap elig[p] IN                             \* sched_setaffinity: mask & cpuset
  IF p \in denied THEN Keep("denied", cur)
  ELSE IF eff # {} THEN [res |-> "ok", nv |-> eff]
  ELSE IF \E c \in req : c \notin CPUs \/ c \notin seen       \* EINVAL: diagnosis loop
         THEN Keep("ValueError", cur)
         ELSE Keep("error", cur)                              \* the OSError(EINVAL) is re-raised
ImplRlim(p, r, lim) ==
  LET cur == rlim[p][r] IN
  IF Len(lim) # 2 THEN Keep("ValueError", cur)
  ELSE IF p \in denied THEN Keep("denied", cur)
  ELSE IF lim[1] > lim[2] THEN Keep("error", cur)
  ELSE IF (r \in Capped /\ lim[2] > CapVal) \/ (~sysres /\ lim[2] > cur[2]) THEN Keep("denied", cur)
  ELSE [res |-> "ok", nv |-> <<lim[1], lim[2]>>]

(* ---------------- request domains ---------------------------------------- *)
NiceReqs(p) == IF p \in Wide
                 THEN NiceDom \cup (IF OpenArgs THEN {0 - 22, 0 - 21, 20, 21} ELSE {})
                 ELSE {0 - 20, 0, 19} \cup (IF OpenArgs THEN {20} ELSE {})
IoOpen(c, l) == (c \in {0, 3} /\ l = 0) \/ (c \in {1, 2} /\ l = NoArg)
IoReqs(p) == {rq \in (IF p \in Wide
                        THEN ({NoArg} \cup 0..3) \X ({NoArg} \cup ((0 - 1)..8))
                        ELSE {<<1, 0>>, <<2, 7>>, <<3, NoArg>>, <<0, NoArg>>, <<2, 8>>, <<NoArg, 3>>, <<2, NoArg>>}) :
                /\ rq # <<NoArg, NoArg>>
                /\ (OpenArgs \/ ~IoOpen(rq[1], rq[2]))}
\* sorted sequence of a set of naturals
RECURSIVE AscSeq(_)
AscSeq(S) == IF S = {} THEN <<>> ELSE <<Min(S)>> \o AscSeq(S \ {Min(S)})
AffMixed(p, cpus) == cpus # <<>> /\ Range(cpus) \cap elig[p] # {} /\ ~(Range(cpus) \subseteq elig[p])
AffReqs(p) == {rq \in (IF p \in Wide
                         THEN {AscSeq(S) : S \in SUBSET (0..NCPU)}
                              \cup {<<c, c>> : c \in 0..NCPU}
                              \cup {<<a, b, a>> : a \in CPUs, b \in CPUs}
                              \cup {<<NCPU + 1000>>}
                         ELSE {<<>>, <<0>>, <<NCPU - 1>>, <<0, 1>>, <<NCPU>>}) :
                 OpenArgs \/ ~AffMixed(p, rq)}
RV == RVals \cup {Inf}
RlimReqs(p) == IF p \in Wide
                 THEN (RV \X RV) \cup {<<>>, <<Lo>>, <<Lo, Lo, Hi>>}
                 ELSE {<<Lo, Lo>>, <<Lo, Hi>>, <<Inf, Inf>>, <<Hi, Lo>>, <<Lo>>}

(* ---------------- behaviour ----------------------------------------------- *)
Init == /\ booted = FALSE
        /\ elig \in [P -> EligSets]
        /\ denied \in DeniedSets
        /\ sysres \in SysRes
        /\ flavor \in Flavors
        /\ nice = [p \in P |-> 0]
        /\ ioprio = [p \in P |-> <<0, 0>>]
        /\ aff = elig
        /\ rlim = [p \in P |-> [r \in Resources |-> InitLim(r)]]
        /\ ev = [op |-> "init"]

\* kernel state as the independent channels show it (sets as sequences of
\* members; ior = I/O priority as reported, io = as stored)
Post(n, i, a, rl) ==
  [nice |-> n, io |-> i,
   ior |-> [p \in P |-> IF i[p][1] = 0 /\ flavor = "derived" THEN <<2, (n[p] + 20) \div 5>> ELSE i[p]],
   aff |-> [p \in P |-> AscSeq(a[p])], rl |-> rl]

Boot == /\ ~booted /\ booted' = TRUE
        /\ UNCHANGED <<kvars, cvars>>
        /\ ev' = [op |-> "boot", elig |-> [p \in P |-> AscSeq(elig[p])],
                  denied |-> AscSeq(denied), sysres |-> sysres, flavor |-> flavor,
                  post |-> Post(nice, ioprio, aff, rlim)]

Get(fam, p, r, val) ==
  /\ booted /\ fam \in Active
  /\ UNCHANGED <<booted, kvars, cvars>>
  /\ ev' = [op |-> fam \o "_get", p |-> p, r |-> r,
            res |-> IF fam = "rlimit" /\ p \in denied THEN "denied" ELSE "ok", val |-> val,
            post |-> Post(nice, ioprio, aff, rlim)]

GetNice(p) == Get("nice", p, 0, nice[p])
GetIo(p) == Get("ionice", p, 0, KIo(p))
GetAff(p) == Get("affinity", p, 0, AscSeq(aff[p]))
GetRlim(p, r) == Get("rlimit", p, r, rlim[p][r])

\* which outcome(s) a set action takes
Pick(allowed, impl) == IF Follow = "impl" THEN {impl} ELSE allowed

SetEv(fam, p, r, arg, o, allowed, valid, want, invalid, n, i, a, rl) ==
  [op |-> fam \o "_set", p |-> p, r |-> r, arg |-> arg, res |-> o.res,
   open |-> Cardinality(allowed) > 1, allowed |-> o \in allowed,
   alts |-> IF Cardinality(allowed) > 1 THEN allowed ELSE {},
   valid |-> valid, want |-> want, invalid |-> invalid,
   post |-> Post(n, i, a, rl)]

SetNice(p, v) ==
  /\ booted /\ "nice" \in Active
  /\ \E o \in Pick(NiceOutcomes(p, v), ImplNice(p, v)) :
       /\ nice' = [nice EXCEPT ![p] = o.nv]
       /\ UNCHANGED <<booted, cvars, ioprio, aff, rlim>>
       /\ ev' = SetEv("nice", p, 0, v, o, NiceOutcomes(p, v), NiceValid(v), v, FALSE,
                      nice', ioprio, aff, rlim)

SetIo(p, c, l) ==
  /\ booted /\ "ionice" \in Active
  /\ \E o \in Pick(IoOutcomes(p, c, l), ImplIo(p, c, l)) :
       /\ ioprio' = [ioprio EXCEPT ![p] = o.nv]
       /\ UNCHANGED <<booted, cvars, nice, aff, rlim>>
       /\ ev' = SetEv("ionice", p, 0, <<c, l>>, o, IoOutcomes(p, c, l), IoValid(c, l), IoWant(c, l),
                      IoInvalid(c, l), nice, ioprio', aff, rlim)

SetAff(p, cpus) ==
  /\ booted /\ "affinity" \in Active
  /\ \E o \in Pick(AffOutcomes(p, cpus), ImplAff(p, cpus)) :
       /\ aff' = [aff EXCEPT ![p] = o.nv]
       /\ UNCHANGED <<booted, cvars, nice, ioprio, rlim>>
       /\ ev' = SetEv("affinity", p, 0, cpus, [res |-> o.res, nv |-> AscSeq(o.nv)],
                      {[res |-> x.res, nv |-> AscSeq(x.nv)] : x \in AffOutcomes(p, cpus)},
                      AffValid(p, cpus), AscSeq(AffWant(p, cpus)), AffInvalid(p, cpus),
                      nice, ioprio, aff', rlim)

SetRlim(p, r, lim) ==
  /\ booted /\ "rlimit" \in Active
  /\ \E o \in Pick(RlimOutcomes(p, r, lim), ImplRlim(p, r, lim)) :
       /\ rlim' = [rlim EXCEPT ![p][r] = o.nv]
       /\ UNCHANGED <<booted, cvars, nice, ioprio, aff>>
       /\ ev' = SetEv("rlimit", p, r, lim, o, RlimOutcomes(p, r, lim), RlimValid(r, lim),
                      IF Len(lim) = 2 THEN <<lim[1], lim[2]>> ELSE <<0, 0>>, RlimInvalid(lim),
                      nice, ioprio, aff, rlim')

Next == \/ Boot
        \/ \E p \in P : GetNice(p) \/ GetIo(p) \/ GetAff(p)
        \/ \E p \in P, r \in Resources : GetRlim(p, r)
        \/ \E p \in P : \E v \in NiceReqs(p) : SetNice(p, v)
        \/ \E p \in P : \E rq \in IoReqs(p) : SetIo(p, rq[1], rq[2])
        \/ \E p \in P : \E cpus \in AffReqs(p) : SetAff(p, cpus)
        \/ \E p \in P, r \in Resources : \E lim \in RlimReqs(p) : SetRlim(p, r, lim)

Spec == Init /\ [][Next]_vars

(* ---------------- properties ---------------------------------------------- *)
SetOps == {"nice_set", "ionice_set", "affinity_set", "rlimit_set"}
GetOps == {"nice_get", "ionice_get", "affinity_get", "rlimit_get"}
IsSet(e) == e.op \in SetOps
IsGet(e) == e.op \in GetOps

TypeOK ==
  /\ nice \in [P -> NiceDom]
  /\ \A p \in P : ioprio[p][1] \in 0..3 /\ ioprio[p][2] \in 0..7
  /\ \A p \in P : aff[p] # {} /\ aff[p] \subseteq elig[p]
  /\ \A p \in P, r \in Resources :
        /\ rlim[p][r][1] <= rlim[p][r][2]
        /\ (r \in Capped => rlim[p][r][2] <= CapVal)

\* value the kernel now holds for the setting a set event addressed
Held(e) == IF e.op = "nice_set" THEN nice'[e.p]
           ELSE IF e.op = "ionice_set" THEN ioprio'[e.p]
           ELSE IF e.op = "affinity_set" THEN AscSeq(aff'[e.p])
           ELSE rlim'[e.p][e.r]

\* after a successful set with a valid value the kernel holds exactly that
\* value (cpu_affinity([]): all eligible CPUs) ...
C18_SetThenGet ==
  [][(IsSet(ev') /\ ev'.valid /\ ev'.res = "ok") => Held(ev') = ev'.want]_vars
\* ... and a valid request can only fail for a reason the kernel owns
C18_ValidSucceeds ==
  [][(IsSet(ev') /\ ev'.valid /\ ev'.res # "ok") =>
        /\ ev'.res = "denied"
        /\ \/ ev'.p \in denied
           \/ (ev'.op = "rlimit_set" /\ (ev'.r \in Capped \/ ~sysres))]_vars
\* the get form returns what the kernel reports and changes nothing
C18_GetReadsKernel ==
  [][IsGet(ev') =>
        /\ UNCHANGED kvars
        /\ (ev'.res = "ok" =>
              ev'.val = (IF ev'.op = "nice_get" THEN nice[ev'.p]
                         ELSE IF ev'.op = "ionice_get" THEN KIo(ev'.p)
                         ELSE IF ev'.op = "affinity_get" THEN AscSeq(aff[ev'.p])
                         ELSE rlim[ev'.p][ev'.r]))]_vars
\* every call leaves every other process, every other setting of the same
\* process and every other resource exactly as it was
C18_OthersUnchanged ==
  [][(IsSet(ev') \/ IsGet(ev')) =>
        /\ \A q \in P \ {ev'.p} :
              nice'[q] = nice[q] /\ ioprio'[q] = ioprio[q] /\ aff'[q] = aff[q] /\ rlim'[q] = rlim[q]
        /\ (ev'.op # "nice_set" => nice' = nice)
        /\ (ev'.op # "ionice_set" => ioprio' = ioprio)
        /\ (ev'.op # "affinity_set" => aff' = aff)
        /\ (ev'.op # "rlimit_set" => rlim' = rlim)
        /\ (ev'.op = "rlimit_set" => \A r \in Resources \ {ev'.r} : rlim'[ev'.p][r] = rlim[ev'.p][r])]_vars
\* the listed invalid requests raise ValueError (on a process the caller may
\* not modify EPERM may win), and no failing call changes anything
C18_InvalidChangesNothing ==
  [][IsSet(ev') =>
        /\ (ev'.invalid => (ev'.res = "ValueError" \/ (ev'.res = "denied" /\ ev'.p \in denied)))
        /\ (ev'.res # "ok" => UNCHANGED kvars)]_vars
\* the classification is a partition where it matters
C18_ClassesDisjoint == [][IsSet(ev') => ~(ev'.valid /\ ev'.invalid)]_vars
\* Follow = "impl": the algorithm's outcome is one the statement allows
C18_ImplAllowed == [][IsSet(ev') => ev'.allowed]_vars

(* ---------------- dump ------------------------------------------------------ *)
Bits(S) == [c \in 0..NCPU |-> c \in S]
viewJ == <<booted, [p \in P |-> Bits(elig[p])], [p \in P |-> p \in denied], sysres, flavor,
           nice, ioprio, [p \in P |-> Bits(aff[p])], rlim>>
DumpL == PrintT(<<"TR", ToJson(viewJ), ToJson(ev'), ToJson(viewJ'), TLCGet("level")>>)
=============================================================================

--------------------------- MODULE NetConnTrace ---------------------------
(***************************************************************************)
(* Trace validation for C11 (code -> spec).  A driver renders random       *)
(* larger socket tables (and, when the host allows it, real sockets of the *)
(* live kernel) for the real code and logs <input, answer>; TLC evaluates  *)
(* the specification's F on every logged input and judges the answer with  *)
(* the specification's acceptance relation.                                *)
(*                                                                         *)
(* Every record is judged (the run does not stop at the first rejection):  *)
(* a rejected record prints <<"REJECTED", idx, verdict, why>> (as JSON):   *)
(* verdict is the set of minimal sets of defect shapes that explain the    *)
(* answer ({{"other"}} when none does), why lists the failing clauses that *)
(* no defect shape accounts for.                                           *)
(***************************************************************************)
EXTENDS NetConn, IOUtils, SequencesExt, Functions

Traces == ndJsonDeserialize(IOEnv.TRACE_FILE)

VARIABLE idx
tvars == <<idx, inp, out, ev>>

\* JSON arrays arrive as sequences: the holder relation and the rows are sets
ToInp(j) == [socks |-> j.socks, hold |-> Range(j.hold), kind |-> j.kind, who |-> j.who]
Got(g)   == [err |-> g.err, rows |-> Range(g.rows)]

TInit == /\ idx \in 1..Len(Traces)
         /\ inp = ToInp(Traces[idx].inp)
         /\ out = Pending
         /\ ev = [op |-> "init"]
TNext == Observe /\ UNCHANGED idx

Match == (out # Pending) =>
           LET got == Got(Traces[idx].got)
               v   == Verdict(inp, got)
           IN \/ v = {}
              \/ PrintT(<<"REJECTED", idx, ToJson(v), ToJson(WhyCore(inp, got))>>)

\* every record is really evaluated (the harness also counts the states)
Judged == (out # Pending) => (out = F(inp))
=============================================================================

------------------------------- MODULE AsDict -------------------------------
(***************************************************************************)
(* C16 -- the contract of Process.as_dict(attrs, ad_value) as a decision    *)
(* table: Init enumerates the request (a set of attribute names, possibly  *)
(* with an unknown name, or a non-collection) and the state of the process *)
(* (alive, zombie, one attribute denied, gone); Observe publishes the      *)
(* outcome class the statement demands.                                    *)
(***************************************************************************)
EXTENDS Naturals, FiniteSets, TLC, Json

CONSTANTS Attrs,     \* valid attribute names used in requests
          States     \* subset of {"alive", "zombie", "denied", "gone"}

VARIABLES inp, out, ev
vars == <<inp, out, ev>>
Pending == [pending |-> TRUE]

\* attributes that a zombie refuses (ZombieProcess) and the one denied in "denied"
ZombieRefuses == {"cmdline", "exe", "cwd"}
DeniedAttr == "cwd"

Requests == [kind : {"list"}, names : (SUBSET Attrs) \ {{}}, bad : BOOLEAN]
            \cup [kind : {"notacollection"}, names : {{}}, bad : {FALSE}]
            \cup [kind : {"all"}, names : {{}}, bad : {FALSE}]

F(i) ==
  IF i.req.kind = "notacollection" THEN [class |-> "TypeError", accesses |-> 0]
  ELSE IF i.req.bad THEN [class |-> "ValueError", accesses |-> 0]
  ELSE IF i.state = "gone" /\ (i.req.names \ {"pid"}) # {} THEN [class |-> "NoSuchProcess"]
  ELSE IF i.state = "gone" /\ i.req.kind = "all" THEN [class |-> "NoSuchProcess"]
  ELSE [class |-> "dict",
        keys |-> IF i.req.kind = "all" THEN {"*"} ELSE i.req.names,
        advalue |-> IF i.state = "zombie" THEN i.req.names \cap ZombieRefuses
                    ELSE IF i.state = "denied" THEN i.req.names \cap {DeniedAttr}
                    ELSE {}]

Init == /\ inp \in [req : Requests, state : States]
        /\ out = Pending /\ ev = [op |-> "init"]
Observe == /\ out = Pending /\ out' = F(inp) /\ inp' = inp
           /\ ev' = [op |-> "observe", inp |-> inp, out |-> F(inp)]
Next == Observe
Spec == Init /\ [][Next]_vars

Done == out # Pending
\* validation comes before any query
RejectedBeforeQuerying == (Done /\ out.class \in {"TypeError", "ValueError"}) => out.accesses = 0
\* ad_value only where a refusal is possible; exactly the requested keys
AdValueSubset == (Done /\ out.class = "dict") => out.advalue \subseteq out.keys \cup {}
DumpL == PrintT(<<"TR", ToJson(<<inp, out>>), ToJson(ev'), ToJson(<<inp', out'>>), TLCGet("level")>>)
=============================================================================

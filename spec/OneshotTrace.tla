---------------------------- MODULE OneshotTrace ----------------------------
(***************************************************************************)
(* C16, code -> spec: executions of the real psutil under the line-level   *)
(* scheduler are logged as sequences of observable events (call start /    *)
(* return with the version returned, block enter / exit, source reads with *)
(* the version the simulated kernel served, version bumps) in their real   *)
(* global order.  This monitor replays each recorded execution and         *)
(* evaluates the C16 clauses of Oneshot.tla on it (same ghost variables:   *)
(* quiescent floor, interference flag, first read of the block).           *)
(* One TLC run validates thousands of executions: Init picks a trace.      *)
(***************************************************************************)
EXTENDS Naturals, Integers, Sequences, FiniteSets, TLC, Json, IOUtils

Traces == ndJsonDeserialize(IOEnv.TRACE_FILE)
Thr == {"A", "B", "C"}

VARIABLES tid, l, ver, depth, trans, inflight, floor, inblk, qfloor, interf, first, reads, why,
          bsver      \* source version when the thread set out to enter its (outermost) block
vars == <<tid, l, ver, depth, trans, inflight, floor, inblk, qfloor, interf, first, reads, why, bsver>>

Tr == Traces[tid].ev
E == Tr[l]

BlockActive(d, tr) == \E t \in Thr : d[t] > 0 \/ tr[t]
Quiet(d, tr, inf) == ~BlockActive(d, tr) /\ \A t \in Thr : ~inf[t]

Init == /\ tid \in 1..Len(Traces) /\ l = 1 /\ ver = 0
        /\ depth = [t \in Thr |-> 0] /\ trans = [t \in Thr |-> FALSE]
        /\ inflight = [t \in Thr |-> FALSE] /\ floor = [t \in Thr |-> 0]
        /\ inblk = [t \in Thr |-> FALSE]
        /\ qfloor = 0 /\ interf = [t \in Thr |-> FALSE] /\ first = [t \in Thr |-> -1]
        /\ reads = [t \in Thr |-> 0] /\ why = "ok" /\ bsver = [t \in Thr |-> 0]

Adv == l' = l + 1 /\ tid' = tid

Bump == /\ E.e = "bump" /\ ver' = ver + 1
        /\ qfloor' = IF Quiet(depth, trans, inflight) THEN ver + 1 ELSE qfloor
        /\ UNCHANGED <<depth, trans, inflight, floor, inblk, interf, first, reads, why, bsver>>

\* the thread is about to enter: it may have to wait for the object's lock
BlockStart == /\ E.e = "bs"
              /\ trans' = [trans EXCEPT ![E.t] = TRUE]
              /\ depth' = [depth EXCEPT ![E.t] = @ + 1]
              /\ IF depth[E.t] = 0
                   THEN /\ interf' = [interf EXCEPT ![E.t] = \E u \in Thr \ {E.t} : inflight[u]]
                        /\ first' = [first EXCEPT ![E.t] = -1]
                        /\ reads' = [reads EXCEPT ![E.t] = 0]
                        /\ bsver' = [bsver EXCEPT ![E.t] = ver]
                   ELSE UNCHANGED <<interf, first, reads, bsver>>
              /\ UNCHANGED <<ver, inflight, floor, inblk, qfloor, why>>

\* the block is entered (lock held): its own bookkeeping starts here
BlockEntered == /\ E.e = "be" /\ trans' = [trans EXCEPT ![E.t] = FALSE]
                /\ UNCHANGED <<ver, depth, inflight, floor, inblk, qfloor, interf, first, reads, why, bsver>>

ExitStart == /\ E.e = "xs" /\ trans' = [trans EXCEPT ![E.t] = TRUE]
             /\ UNCHANGED <<ver, depth, inflight, floor, inblk, qfloor, interf, first, reads, why, bsver>>

ExitEnd == /\ E.e = "xe"
           /\ trans' = [trans EXCEPT ![E.t] = FALSE]
           /\ depth' = [depth EXCEPT ![E.t] = @ - 1]
           /\ qfloor' = IF Quiet(depth', trans', inflight) THEN ver ELSE qfloor
           /\ UNCHANGED <<ver, inflight, floor, inblk, interf, first, reads, why, bsver>>

CallStart == /\ E.e = "cs"
             /\ floor' = [floor EXCEPT ![E.t] = IF Quiet(depth, trans, inflight) THEN ver ELSE qfloor]
             /\ inflight' = [inflight EXCEPT ![E.t] = TRUE]
             /\ inblk' = [inblk EXCEPT ![E.t] = depth[E.t] > 0]
             /\ interf' = [t \in Thr |-> interf[t] \/ (t # E.t /\ (depth[t] > 0 \/ trans[t]))]
             /\ UNCHANGED <<ver, depth, trans, qfloor, first, reads, why, bsver>>

Read == /\ E.e = "rd"
        /\ IF depth[E.t] > 0
             THEN /\ first' = [first EXCEPT ![E.t] = IF @ = -1 THEN E.v ELSE @]
                  /\ reads' = [reads EXCEPT ![E.t] = @ + 1]
             ELSE UNCHANGED <<first, reads, bsver>>
        /\ why' = IF E.v # ver THEN "simkernel served a version that is not current" ELSE why
        /\ UNCHANGED <<ver, depth, trans, inflight, floor, inblk, qfloor, interf, bsver>>

CallRet == /\ E.e = "cr"
           /\ inflight' = [inflight EXCEPT ![E.t] = FALSE]
           /\ qfloor' = IF Quiet(depth, trans, inflight') THEN ver ELSE qfloor
           /\ why' = IF E.exc # "" THEN "NoSpuriousError: " \o E.exc
                     ELSE IF ~(floor[E.t] <= E.v /\ E.v <= ver) THEN "VersionWindow"
                     \* "first read IN THAT BLOCK": whatever other threads do, a value served inside a block was
                     \* read from the source after the thread set out to enter the block
                     ELSE IF inblk[E.t] /\ E.v < bsver[E.t] THEN "ReadInBlock"
                     ELSE IF inblk[E.t] /\ ~interf[E.t] /\ E.v # first[E.t] THEN "BlockSnapshot"
                     ELSE IF inblk[E.t] /\ ~interf[E.t] /\ reads[E.t] > 1 THEN "AtMostOneRead"
                     ELSE why
           /\ UNCHANGED <<ver, depth, trans, floor, inblk, interf, first, reads, bsver>>

Next == /\ why = "ok" /\ l <= Len(Tr) /\ Adv
        /\ (Bump \/ BlockStart \/ BlockEntered \/ ExitStart \/ ExitEnd \/ CallStart \/ Read \/ CallRet)

Accepted == why = "ok" \/ (PrintT(<<"REJECTED", tid, l - 1, why>>) /\ FALSE)
=============================================================================

-------------------------- MODULE WrapNumbersTrace --------------------------
(***************************************************************************)
(* C10, code -> spec, two threads: executions of the real                  *)
(* net_io_counters()/disk_io_counters()/cache_clear() by two real threads  *)
(* under the line-level scheduler are recorded per thread (program order)  *)
(* with the values each call returned.  The calls are atomic in the        *)
(* specification (the code holds a lock around the cache update), so an    *)
(* execution is accepted iff SOME interleaving of the two threads' calls   *)
(* is a behaviour of WrapNumbers.tla producing exactly the recorded        *)
(* results (linearizability).  TLC searches the interleavings.             *)
(* Each trace: pre = sequential prefix (kernel settings and calls),        *)
(* thr = [A |-> calls, B |-> calls].                                       *)
(***************************************************************************)
EXTENDS WrapNumbers, IOUtils, Sequences

Traces == ndJsonDeserialize(IOEnv.TRACE_FILE)

VARIABLES tid, pp, pa, pb     \* trace id, positions in prefix / thread A / thread B
tvars == <<tid, pp, pa, pb>>

Tr == Traces[tid]

TInit == /\ Init /\ tid \in 1..Len(Traces) /\ pp = 1 /\ pa = 1 /\ pb = 1

\* apply one recorded event e; for calls the model's result must equal the recorded one
Apply(e) ==
  \/ /\ e.op = "k_set" /\ \E f \in Fields, v \in 0..MaxV : KSet(e.name, e.key, f, v) /\ raw'[e.name][e.key] = e.val
  \/ /\ e.op = "k_del" /\ KDel(e.name, e.key)
  \/ /\ e.op = "cache_clear" /\ CacheClear(e.name)
  \/ /\ e.op = "call" /\ Call(e.name, e.nowrap, e.form)
     /\ ev'.empty = e.empty
     /\ (~e.empty => ev'.res = e.res)

Prefix == /\ pp <= Len(Tr.pre) /\ Apply(Tr.pre[pp]) /\ pp' = pp + 1 /\ UNCHANGED <<tid, pa, pb>>
StepA  == /\ pp > Len(Tr.pre) /\ pa <= Len(Tr.thr.A) /\ Apply(Tr.thr.A[pa]) /\ pa' = pa + 1 /\ UNCHANGED <<tid, pp, pb>>
StepB  == /\ pp > Len(Tr.pre) /\ pb <= Len(Tr.thr.B) /\ Apply(Tr.thr.B[pb]) /\ pb' = pb + 1 /\ UNCHANGED <<tid, pp, pa>>
TNext == Prefix \/ StepA \/ StepB

\* furthest progress per trace is kept in TLC register tid
Progress == TLCSet(tid, IF TLCGet(tid) > (pp + pa + pb) THEN TLCGet(tid) ELSE pp + pa + pb)
Full(t) == Len(Traces[t].pre) + Len(Traces[t].thr.A) + Len(Traces[t].thr.B) + 3
ASSUME \A i \in 1..Len(Traces) : TLCSet(i, 0)
AllLinearizable ==
  LET bad == {t \in 1..Len(Traces) : TLCGet(t) < Full(t)} IN
  bad = {} \/ (PrintT(<<"REJECTED", bad>>) /\ FALSE)
=============================================================================

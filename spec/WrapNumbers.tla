---------------------------- MODULE WrapNumbers ----------------------------
(***************************************************************************)
(* psutil.net_io_counters(pernic, nowrap) / psutil.disk_io_counters(       *)
(* perdisk, nowrap) over psutil._common._WrapNumbers: the per-function     *)
(* cache of the last raw dict, the per-(key, field) reminders, dead-key     *)
(* removal, cache_clear(), and the two public wrappers' early return on an *)
(* empty listing and their partition filter.                               *)
(*                                                                         *)
(* Implementation-shaped state (cacheHas, cache, rem) computes `res`, what *)
(* the code returns.  Ghost state (last, carry) computes `exp`, what C10   *)
(* demands: within a key's history (first nowrap=True call that sees it    *)
(* listed, until a nowrap=True call observes it absent or cache_clear())   *)
(* returned = raw + sum of the raw values seen just before each observed   *)
(* decrease.  TLC checks res = exp on every call; conformance checks       *)
(* code = res.                                                             *)
(***************************************************************************)
EXTENDS Naturals, Integers, FiniteSets, TLC, Json

CONSTANTS MaxV,          \* raw counter values range over 0..MaxV
          NF,            \* number of counter fields per device
          MaxCalls,      \* bound on public calls (state constraint)
          Active,        \* subset of {"net","disk"} the actions range over
          NowrapSet,     \* values of the nowrap argument explored
          FormSet,       \* subset of {"per","tot"} explored
          Fixes,         \* {"C10empty"}: empty listings are fed to the cache
          KnownFindings  \* signed defects, e.g. {"C10-form-switch"}

Names == {"net", "disk"}
Keys == [net |-> {"e0", "e1"}, disk |-> {"sda", "sda1"}]
IsPart(k) == k = "sda1"                 \* filtered out of perdisk=False
AllKeys == {"e0", "e1", "sda", "sda1"}
Fields == 1..NF
Absent == [f \in Fields |-> -1]

VARIABLES raw,       \* kernel: [name -> [key -> [field -> value] | Absent]]
          cacheHas,  \* name \in _wn.cache
          cache,     \* _wn.cache[name]   : last input dict (Absent = key missing)
          rem,       \* _wn.reminders[name][(key, i)]
          last,      \* ghost: last raw tuple observed for the key (Absent = no history)
          carry,     \* ghost: accumulated offset of the key's history
          taint,     \* ghost: keys whose code state is known to be off (signed findings)
          ncalls,
          ev

vars == <<raw, cacheHas, cache, rem, last, carry, taint, ncalls, ev>>
view == <<raw, cacheHas, cache, rem, last, carry, taint, ncalls>>

Zero == [f \in Fields |-> 0]
KeyFn(n, v) == [k \in AllKeys |-> v]

Init == /\ raw = [n \in Names |-> [k \in AllKeys |-> Absent]]
        /\ cacheHas = [n \in Names |-> FALSE]
        /\ cache = [n \in Names |-> [k \in AllKeys |-> Absent]]
        /\ rem = [n \in Names |-> [k \in AllKeys |-> Zero]]
        /\ last = [n \in Names |-> [k \in AllKeys |-> Absent]]
        /\ carry = [n \in Names |-> [k \in AllKeys |-> Zero]]
        /\ taint = [n \in Names |-> {}]
        /\ ncalls = 0
        /\ ev = [op |-> "init"]

Listed(n, k) == raw[n][k] # Absent

(* ---------------- kernel ------------------------------------------------ *)
KSet(n, k, f, v) ==
  /\ k \in Keys[n]
  /\ raw[n][k][f] # v
  /\ raw' = [raw EXCEPT ![n][k] = IF raw[n][k] = Absent THEN [Zero EXCEPT ![f] = v]
                                   ELSE [raw[n][k] EXCEPT ![f] = v]]
  /\ ev' = [op |-> "k_set", name |-> n, key |-> k, val |-> raw'[n][k]]
  /\ UNCHANGED <<cacheHas, cache, rem, last, carry, taint, ncalls>>

KDel(n, k) ==
  /\ k \in Keys[n] /\ Listed(n, k)
  /\ raw' = [raw EXCEPT ![n][k] = Absent]
  /\ ev' = [op |-> "k_del", name |-> n, key |-> k]
  /\ UNCHANGED <<cacheHas, cache, rem, last, carry, taint, ncalls>>

(* ---------------- psutil ------------------------------------------------ *)
\* keys handed to wrap_numbers by the public wrapper
InputKeys(n, form) == {k \in Keys[n] : Listed(n, k) /\ (form = "per" \/ ~IsPart(k))}

\* _WrapNumbers.run(input, name): <<output dict, cache', rem'>> (only when cacheHas[n])
RunOut(n, inp) ==
  [k \in AllKeys |->
     IF k \notin inp THEN Absent
     ELSE IF cache[n][k] = Absent THEN raw[n][k]
     ELSE [f \in Fields |-> raw[n][k][f] +
             (IF raw[n][k][f] < cache[n][k][f] THEN rem[n][k][f] + cache[n][k][f] ELSE rem[n][k][f])]]
RunRem(n, inp) ==
  [k \in AllKeys |->
     IF cache[n][k] # Absent /\ k \notin inp THEN Zero          \* _remove_dead_reminders
     ELSE IF k \in inp /\ cache[n][k] # Absent
          THEN [f \in Fields |-> IF raw[n][k][f] < cache[n][k][f]
                                  THEN rem[n][k][f] + cache[n][k][f] ELSE rem[n][k][f]]
          ELSE rem[n][k]]

\* ghost: what C10 demands for the observed keys
GhostCarry(n, k) ==
  IF last[n][k] = Absent THEN Zero
  ELSE [f \in Fields |-> IF raw[n][k][f] < last[n][k][f] THEN carry[n][k][f] + last[n][k][f]
                          ELSE carry[n][k][f]]
GhostOut(n, inp) ==
  [k \in AllKeys |-> IF k \in inp THEN [f \in Fields |-> raw[n][k][f] + GhostCarry(n, k)[f]]
                     ELSE Absent]

Sum(out, inp) == [f \in Fields |->
   LET S[ks \in SUBSET AllKeys] == IF ks = {} THEN 0
                                   ELSE LET k == CHOOSE x \in ks : TRUE IN out[k][f] + S[ks \ {k}]
   IN S[inp]]

Shape(out, inp, form) == IF form = "per" THEN [k \in inp |-> out[k]] ELSE Sum(out, inp)

Call(n, nowrap, form) ==
  /\ ncalls' = ncalls + 1
  /\ UNCHANGED raw
  /\ LET inp   == InputKeys(n, form)
         empty == inp = {}
         rawOut == [k \in AllKeys |-> IF k \in inp THEN raw[n][k] ELSE Absent]
         \* keys this call observes (present or absent) for the ghost
         obs   == {k \in Keys[n] : form = "per" \/ ~IsPart(k)}
         feeds == nowrap /\ (~empty \/ "C10empty" \in Fixes)
     IN
     /\ IF feeds
          THEN IF cacheHas[n]
                 THEN /\ cache' = [cache EXCEPT ![n] = rawOut]
                      /\ rem' = [rem EXCEPT ![n] = RunRem(n, inp)]
                      /\ cacheHas' = cacheHas
                 ELSE /\ cache' = [cache EXCEPT ![n] = rawOut]
                      /\ cacheHas' = [cacheHas EXCEPT ![n] = TRUE]
                      /\ rem' = rem
          ELSE UNCHANGED <<cacheHas, cache, rem>>
     /\ IF nowrap
          THEN /\ last' = [last EXCEPT ![n] = [k \in AllKeys |->
                              IF k \in obs THEN (IF k \in inp THEN raw[n][k] ELSE Absent)
                              ELSE last[n][k]]]
               /\ carry' = [carry EXCEPT ![n] = [k \in AllKeys |->
                              IF k \in obs THEN (IF k \in inp THEN GhostCarry(n, k) ELSE Zero)
                              ELSE carry[n][k]]]
               \* signed defect: a totals call makes the cache forget listed partitions
               /\ taint' = [taint EXCEPT ![n] =
                     (taint[n] \ {k \in obs : k \notin inp})        \* history ended: back in sync
                     \cup (IF feeds /\ form = "tot"
                           THEN {k \in Keys[n] : IsPart(k) /\ last[n][k] # Absent}
                           ELSE {})]
          ELSE UNCHANGED <<last, carry, taint>>
     /\ ev' = [op |-> "call", name |-> n, nowrap |-> nowrap, form |-> form,
               empty |-> empty,
               res |-> IF empty THEN Shape(rawOut, {}, form)
                       ELSE IF ~nowrap THEN Shape(rawOut, inp, form)
                       ELSE IF cacheHas[n] THEN Shape(RunOut(n, inp), inp, form)
                       ELSE Shape(rawOut, inp, form),
               exp |-> IF empty THEN Shape(rawOut, {}, form)
                       ELSE IF ~nowrap THEN Shape(rawOut, inp, form)
                       ELSE Shape(GhostOut(n, inp), inp, form),
               excused |-> (taint[n] \cap inp # {})]

CacheClear(n) ==
  /\ ncalls' = ncalls + 1
  /\ cacheHas' = [cacheHas EXCEPT ![n] = FALSE]
  /\ cache' = [cache EXCEPT ![n] = [k \in AllKeys |-> Absent]]
  /\ rem' = [rem EXCEPT ![n] = [k \in AllKeys |-> Zero]]
  /\ last' = [last EXCEPT ![n] = [k \in AllKeys |-> Absent]]
  /\ carry' = [carry EXCEPT ![n] = [k \in AllKeys |-> Zero]]
  /\ taint' = [taint EXCEPT ![n] = {}]
  /\ ev' = [op |-> "cache_clear", name |-> n]
  /\ UNCHANGED raw

Next == \/ \E n \in Active, k \in AllKeys, f \in Fields, v \in 0..MaxV : KSet(n, k, f, v)
        \/ \E n \in Active, k \in AllKeys : KDel(n, k)
        \/ \E n \in Active, nw \in NowrapSet, form \in FormSet : Call(n, nw, form)
        \/ \E n \in Active : CacheClear(n)

Spec == Init /\ [][Next]_vars

Bound == ncalls <= MaxCalls

(* ---------------- properties -------------------------------------------- *)
\* C10: returned = raw + carried offset (hence monotone within a history)
C10_ExactOffset ==
  [][ev'.op = "call" =>
       \/ ev'.res = ev'.exp
       \/ (ev'.excused /\ "C10-form-switch" \in KnownFindings)]_vars

\* C10: the ghost offset only grows while the history lasts (monotonicity of
\* what is demanded: exp never decreases for a key that stays observed-present)
C10_GhostMonotone ==
  [][\A n \in Names, k \in AllKeys, f \in Fields :
       (last[n][k] # Absent /\ last'[n][k] # Absent)
         => last'[n][k][f] + carry'[n][k][f] >= last[n][k][f] + carry[n][k][f]]_vars

\* C10: the two functions do not interfere; nowrap=False changes nothing
C10_Isolation ==
  [][(ev'.op \in {"call", "cache_clear"}) =>
       \A m \in Names \ {ev'.name} :
          /\ cache'[m] = cache[m] /\ rem'[m] = rem[m] /\ cacheHas'[m] = cacheHas[m]]_vars
C10_NowrapFalsePure ==
  [][(ev'.op = "call" /\ ~ev'.nowrap) => UNCHANGED <<cacheHas, cache, rem>>]_vars

\* structural: reminders exist only for cached keys
RemOnlyForCached ==
  \A n \in Names, k \in AllKeys : (cache[n][k] = Absent) => rem[n][k] = Zero

\* canonical rendering for the dump: sets as boolean functions
viewJ == <<raw, cacheHas, cache, rem, last, carry,
           [n \in Names |-> [k \in AllKeys |-> k \in taint[n]]], ncalls>>
DumpL == PrintT(<<"TR", ToJson(viewJ), ToJson(ev'), ToJson(viewJ'), TLCGet("level")>>)
=============================================================================

--------------------------- MODULE ProcTextTrace ---------------------------
(***************************************************************************)
(* Trace validation for C12 (code -> spec): a seeded driver feeds larger   *)
(* random inputs (longer argument vectors and environment blocks, link     *)
(* targets assembled from more tokens, random comm/argv[0] pairs, longer   *)
(* exe() plans) to the real code and logs <input, answers>.  TLC evaluates *)
(* the specification's functions on every logged input: a functional       *)
(* answer must be a member of the allowed set; a sequence of exe() answers *)
(* must be a run of the memo machine (the set of memos compatible with the *)
(* answers seen so far must never become empty).                           *)
(***************************************************************************)
EXTENDS ProcText, IOUtils, SequencesExt, Functions

Traces == ndJsonDeserialize(IOEnv.TRACE_FILE)

VARIABLES idx, memos
tvars == <<idx, memos, inp, out, memo, k, ev>>

\* the logged answer, shaped like the specification's results
Got(g) == IF inp.kind = "environ" THEN [exc |-> g.exc, val |-> Range(g.val)]
          ELSE [exc |-> g.exc, val |-> g.val]

TInit == /\ idx \in 1..Len(Traces)
         /\ inp = Traces[idx].inp
         /\ out = Pending
         /\ memo = NoMemo
         /\ memos = {NoMemo}
         /\ k = 0
         /\ ev = [op |-> "init"]

TObserve == Observe /\ UNCHANGED <<idx, memos>>

\* one logged exe() answer: keep the memos some allowed step reaches with it
TExe == /\ inp.kind = "exe"
        /\ k < Len(inp.plan)
        /\ memos # {}
        /\ LET got == Got(Traces[idx].got[k + 1])
               steps == UNION {Step(m, inp.plan[k + 1], inp) : m \in memos}
           IN memos' = {pr[2] : pr \in {q \in steps : q[1] = got}}
        /\ k' = k + 1
        /\ ev' = [op |-> "exe", k |-> k + 1, cls |-> ExeClass(memos, inp.plan[k + 1], inp)]
        /\ UNCHANGED <<idx, inp, out, memo>>

TNext == TObserve \/ TExe

\* Verdicts are printed, not raised, so that one run judges every record:
\* CLS lines name the class of every evaluated record / call (the harness
\* counts them: nothing may be skipped), REJECTED lines the records whose
\* logged answer the specification does not allow.
Verdict(ok, cls, rejcls) == /\ PrintT(<<"CLS", idx, cls>>)
                            /\ ok \/ PrintT(<<"REJECTED", idx, rejcls>>)

Match == (out # Pending) =>
           LET got == Got(Traces[idx].got)
           IN Verdict(out.open \/ got \in out.allowed, out.cls,
                      IF got \in out.nl THEN "newline-translation" ELSE out.cls)

MatchExe == (ev.op = "exe") => Verdict(memos # {}, ev.cls, ev.cls)
=============================================================================

------------------------------ MODULE ProcTree ------------------------------
(***************************************************************************)
(* C05 -- Process.children(), children(recursive=True), parent() and       *)
(* parents() on an arbitrary process table: every assignment of parent     *)
(* PIDs (forests, self-loops, cycles made by PID reuse, unlisted parents)  *)
(* and every ordering of start times.                                      *)
(*                                                                         *)
(* Init enumerates the tables and the caller.  The recursive walk is       *)
(* modelled as the code performs it -- an explicit stack with a `seen`     *)
(* set, one loop iteration per action -- so that TLC checks termination    *)
(* (liveness) and compares the walk's result with the declarative          *)
(* reachability the statement speaks of.  `Fixes` selects the algorithm:   *)
(* {} is psutil 7.0.0, "C05self" never reports the caller itself.          *)
(***************************************************************************)
EXTENDS Naturals, Integers, Sequences, FiniteSets, TLC, Json

CONSTANTS Pids,      \* listed candidates, e.g. 1..3
          PPids,     \* values a ppid may take (Pids, 0, an unlisted PID)
          Starts,    \* start ticks
          AllListed, \* TRUE: every PID of Pids is listed
          Fixes

VARIABLES tbl,     \* [Pids -> [ppid, start, on]]   on = listed
          s,       \* the caller (listed)
          stack, seen, ret, steps, phase,
          ev
vars == <<tbl, s, stack, seen, ret, steps, phase, ev>>

Listed == {p \in Pids : tbl[p].on}
InTime(p) == tbl[s].start <= tbl[p].start          \* not older than the caller

\* ---- what the statement says -------------------------------------------
Kids(q) == {p \in Listed : tbl[p].ppid = q}
Children == {p \in Kids(s) : InTime(p)} \ {s}

\* nodes reachable from s through reversed parent links, walking only
\* through processes that are not older than the caller
RECURSIVE ReachFrom(_, _)
ReachFrom(frontier, acc) ==
  LET new == {p \in Listed : tbl[p].ppid \in frontier /\ InTime(p)} \ acc
  IN IF new = {} THEN acc ELSE ReachFrom(new, acc \cup new)
Descendants == ReachFrom({s}, {s}) \ {s}

Lowest == CHOOSE p \in Listed : \A q \in Listed : p <= q
ParentOf(q, ref) ==     \* parent() of q; `ref` = the start q compares against
  IF q = Lowest THEN 0
  ELSE LET pp == tbl[q].ppid IN
       IF pp \in Listed /\ tbl[pp].start <= tbl[q].start THEN pp ELSE 0

\* parents(): iterate parent(); `cyc` when the chain does not reach a root
RECURSIVE Chain(_, _)
Chain(q, n) == IF n = 0 THEN <<-1>>
               ELSE LET p == ParentOf(q, 0) IN
                    IF p = 0 THEN <<>> ELSE <<p>> \o Chain(p, n - 1)
Parents == Chain(s, Cardinality(Pids) + 1)
Cyclic == Len(Parents) > 0 /\ Parents[Len(Parents)] = -1

\* ---- what the code does ---------------------------------------------------
\* ascending sequence of a set of PIDs (ppid_map() lists in /proc order)
RECURSIVE Asc(_)
Asc(S) == IF S = {} THEN <<>>
          ELSE LET m == CHOOSE x \in S : \A y \in S : x <= y IN <<m>> \o Asc(S \ {m})

Keep(p) == InTime(p) /\ ("C05self" \notin Fixes \/ p # s)

\* children(): one pass over the ppid map
FlatWalk == Asc({p \in Kids(s) : Keep(p)})

Init == /\ tbl \in [Pids -> [ppid : PPids, start : Starts, on : IF AllListed THEN {TRUE} ELSE BOOLEAN]]
        /\ s \in {p \in Pids : tbl[p].on}
        /\ stack = <<s>> /\ seen = {} /\ ret = <<>> /\ steps = 0 /\ phase = "walk"
        /\ ev = [op |-> "init"]

\* one iteration of `while stack:` in children(recursive=True)
WalkStep ==
  /\ phase = "walk" /\ stack # <<>>
  /\ LET pid == stack[Len(stack)]  front == SubSeq(stack, 1, Len(stack) - 1) IN
     IF pid \in seen
       THEN /\ stack' = front /\ UNCHANGED <<seen, ret>>
       ELSE LET ks == Asc({p \in Kids(pid) : Keep(p)}) IN
            /\ seen' = seen \cup {pid}
            /\ ret' = ret \o ks
            /\ stack' = front \o ks
  /\ steps' = steps + 1
  /\ ev' = [op |-> "step"]
  /\ UNCHANGED <<tbl, s, phase>>

Observe ==
  /\ phase = "walk" /\ stack = <<>>
  /\ phase' = "done"
  /\ ev' = [op |-> "observe", tbl |-> tbl, s |-> s,
            children |-> Children, flat |-> FlatWalk,
            descendants |-> Descendants, walk |-> ret,
            parent |-> ParentOf(s, 0), parents |-> Parents, cyclic |-> Cyclic]
  /\ UNCHANGED <<tbl, s, stack, seen, ret, steps>>

Next == WalkStep \/ Observe
Spec == Init /\ [][Next]_vars /\ WF_vars(Next)

\* ---- properties -----------------------------------------------------------
SeqToSet(q) == {q[i] : i \in DOMAIN q}
NoDup(q) == \A i, j \in DOMAIN q : i # j => q[i] # q[j]

Done == phase = "done"

\* children(): exactly the listed processes whose parent is the caller
C05_Children == Done => (SeqToSet(FlatWalk) = Children /\ NoDup(FlatWalk))

\* children(recursive=True): exactly the reachable ones, each once, never self
C05_Descendants == Done => (SeqToSet(ret) = Descendants /\ NoDup(ret) /\ s \notin SeqToSet(ret))

\* never a process that started before the caller
C05_NeverOlder == Done => \A p \in SeqToSet(ret) \cup SeqToSet(FlatWalk) : InTime(p)

\* the walk terminates on any parent-link graph, within 2|Pids|+1 iterations
C05_Terminates == <>Done
C05_StepBound == steps <= 2 * Cardinality(Pids) + 1

\* parent(): the process named by ppid unless younger than the caller
C05_Parent == Done => LET p == ParentOf(s, 0) IN
                       (p # 0 => (p = tbl[s].ppid /\ tbl[p].start <= tbl[s].start))

DumpL == PrintT(<<"TR", ToJson(<<s, phase>>), ToJson(ev'), ToJson(<<s', phase'>>), TLCGet("level")>>)
=============================================================================

------------------------------ MODULE ProcMem ------------------------------
(***************************************************************************)
(* C13 -- what psutil must report about one process's memory given the     *)
(* abstract content of /proc/<pid>/statm, /proc/<pid>/smaps (one record    *)
(* per mapping), /proc/<pid>/smaps_rollup (the kernel's own sums over the  *)
(* mappings, or ENOENT / ESRCH) and the machine's MemTotal.                *)
(*                                                                         *)
(* "Spec as oracle": Init ranges over the abstract input space, the single *)
(* action Observe publishes what memory_info(), memory_full_info(),        *)
(* memory_maps(grouped=False), memory_maps(grouped=True) and               *)
(* memory_percent(t) (for every t, valid or not) must answer.  Figures are *)
(* exact integers (bytes); percentages are exact rationals num/den.  The   *)
(* harness renders the same record into the kernel's text (sim_c13.py),    *)
(* multiplies every count by a per-case scale (all formulas here are       *)
(* homogeneous) and compares the public API's answers with `out`.          *)
(***************************************************************************)
EXTENDS Naturals, Integers, Sequences, FiniteSets, TLC, Json

CONSTANTS PageSize,   \* bytes per page
          StatmIds,   \* indices into StatmTable
          PathIds,    \* indices into PathTable used by the enumeration
          MaxMaps,    \* 0..MaxMaps mappings
          OptSels,    \* subsets of OptLines; odd mappings carry the subset, even ones its complement
          Rollups,    \* subset of {"present", "enoent", "esrch"}
          Totals,     \* MemTotal of the machine, kB
          BadTypes    \* strings that are not memory field names

VARIABLES inp, out, ev
vars == <<inp, out, ev>>

(* ------------------------- the abstract kernel record -------------------- *)
\* A mapping is
\*   [lo, hi     : its address range in pages (ranges are disjoint and ascending),
\*    perms      : the four permission characters,
\*    name       : path of the backing object as the kernel knows it, "" for anonymous memory,
\*    deleted    : the backing file has been unlinked (the kernel then prints name \o " (deleted)"),
\*    kb         : [line name -> kB] for the accounting lines of the mapping,
\*    opts       : [l \in OptLines -> BOOLEAN], which optional lines this kernel prints for it]
\* Of the optional lines only Private_Hugetlb carries memory that the API reports (it is
\* private memory); "Extras" stands for the lines newer kernels added between the reported ones
\* (KernelPageSize, MMUPageSize, Pss_Dirty, KSM, LazyFree, AnonHugePages, ShmemPmdMapped,
\* FilePmdMapped, SwapPss, Locked and, in the roll-up, Pss_Anon/Pss_File/Pss_Shmem), which
\* the renderer prints with non-zero figures.
OptLines == {"VmFlags", "THPeligible", "ProtectionKey", "Private_Hugetlb", "Extras"}

PathTable == <<
  [name |-> "",                                      deleted |-> FALSE],  \* 1 anonymous
  [name |-> "/opt/my  libs/lib\ta:b.so.1",           deleted |-> FALSE],  \* 2 two spaces in a row, a tab, a colon
  [name |-> "/usr/lib/x86_64-linux-gnu/libc.so.6",   deleted |-> FALSE],  \* 3 plain
  [name |-> "/tmp/gone file",                        deleted |-> TRUE ],  \* 4 unlinked: shown with " (deleted)"
  [name |-> "[heap]",                                deleted |-> FALSE],  \* 5 kernel pseudo-path
  [name |-> "/tmp/kept (deleted)",                   deleted |-> FALSE],  \* 6 a living file really named so
  [name |-> "/srv/Swap: 77 kB",                      deleted |-> FALSE]   \* 7 a name that looks like a figure line
>>

\* kB figures of the enumerated mappings: weight of the line times 4^(position-1), so that every
\* field of every mapping is different and the sum over any subset of mappings identifies it
Weight == [Size |-> 29, Rss |-> 23, Pss |-> 7, Shared_Clean |-> 2, Shared_Dirty |-> 3,
           Private_Clean |-> 5, Private_Dirty |-> 11, Referenced |-> 19, Anonymous |-> 17,
           Swap |-> 13, Private_Hugetlb |-> 31]
Pow4 == <<1, 4, 16, 64, 256>>
PermTable == <<"r-xp", "rw-p", "r--s", "---p", "rwxp">>

\* (with "THPeligible" selected the second mapping carries exactly the figures of the first: a file
\* mapped twice the same way and equally resident)
Scale(i, sel) == IF i = 2 /\ "THPeligible" \in sel THEN Pow4[1] ELSE Pow4[i]

MkMap(i, p, sel) ==
  [ lo |-> 16 * i, hi |-> 16 * i + i,
    perms |-> PermTable[i],
    name |-> PathTable[p].name, deleted |-> PathTable[p].deleted,
    kb |-> [l \in DOMAIN Weight |-> Weight[l] * Scale(i, sel)],
    opts |-> [l \in OptLines |-> l \in (IF i % 2 = 1 THEN sel ELSE OptLines \ sel)] ]

\* statm records <<size, resident, shared, text, lib, data, dt>> in pages: a kernel thread, a
\* record with seven different counts, a 2.6+ record (lib and dt are always 0 there)
Zero7 == <<0, 0, 0, 0, 0, 0, 0>>
StatmTable == << Zero7, <<70, 31, 12, 5, 3, 44, 2>>, <<97, 64, 21, 8, 0, 53, 0>> >>
Statms == {StatmTable[k] : k \in StatmIds}

Choices == [statm : Statms, paths : UNION {[1..n -> PathIds] : n \in 0..MaxMaps},
            sel : OptSels, rollup : Rollups, total : Totals]

\* what a kernel can present: a task without an address space (kernel thread) has an all-zero
\* statm, no mappings, and its roll-up cannot be read; a task with mappings has pages
Presentable(c) == /\ (c.statm = Zero7) <=> (c.paths = <<>>)
                  /\ (c.paths = <<>>) => (c.rollup # "present")

Expand(c) == [statm |-> c.statm,
              maps |-> [i \in 1..Len(c.paths) |-> MkMap(i, c.paths[i], c.sel)],
              rollup |-> c.rollup, total |-> c.total]

Inputs == {Expand(c) : c \in {c \in Choices : Presentable(c)}}

(* ------------------------------ the function ----------------------------- *)
RECURSIVE SumF(_, _)       \* sum of field f over a sequence of records
SumF(s, f) == IF s = <<>> THEN 0 ELSE Head(s)[f] + SumF(Tail(s), f)

RECURSIVE SumSetF(_, _)    \* the same over a set of records
SumSetF(S, f) == IF S = {} THEN 0
                 ELSE LET r == CHOOSE r \in S : TRUE IN r[f] + SumSetF(S \ {r}, f)

KB == 1024

\* statm columns: size resident shared text lib data dt
Info(i) == LET s == i.statm IN
  [rss |-> s[2] * PageSize, vms |-> s[1] * PageSize, shared |-> s[3] * PageSize,
   text |-> s[4] * PageSize, lib |-> s[5] * PageSize, data |-> s[6] * PageSize,
   dirty |-> s[7] * PageSize]

\* the kernel's per-mapping accounting
PrivHuge(m) == IF m.opts["Private_Hugetlb"] THEN m.kb["Private_Hugetlb"] ELSE 0
Acct(m) == [private |-> m.kb["Private_Clean"] + m.kb["Private_Dirty"] + PrivHuge(m),
            pss |-> m.kb["Pss"], swap |-> m.kb["Swap"]]
AcctSeq(maps) == [k \in 1..Len(maps) |-> Acct(maps[k])]

\* source 1: the per-mapping listing
FromSmaps(maps) == LET a == AcctSeq(maps) IN
  [uss |-> KB * SumF(a, "private"), pss |-> KB * SumF(a, "pss"), swap |-> KB * SumF(a, "swap")]

\* source 2: the roll-up file, i.e. one record holding, line by line, the kernel's sums
HugeSeq(maps) == [k \in 1..Len(maps) |-> [v |-> PrivHuge(maps[k])]]
KbSeq(maps) == [k \in 1..Len(maps) |-> maps[k].kb]
RollupRecord(maps) ==
  [Private_Clean |-> SumF(KbSeq(maps), "Private_Clean"), Private_Dirty |-> SumF(KbSeq(maps), "Private_Dirty"),
   Private_Hugetlb |-> SumF(HugeSeq(maps), "v"), Pss |-> SumF(KbSeq(maps), "Pss"),
   Swap |-> SumF(KbSeq(maps), "Swap")]
FromRollup(r) == [uss |-> KB * (r.Private_Clean + r.Private_Dirty + r.Private_Hugetlb),
                  pss |-> KB * r.Pss, swap |-> KB * r.Swap]

Extra(i) == IF i.rollup = "present" THEN FromRollup(RollupRecord(i.maps)) ELSE FromSmaps(i.maps)

\* one row per mapping
Reported(m) == IF m.name = "" THEN "[anon]" ELSE m.name
Row(m) == [addr |-> <<m.lo, m.hi>>, perms |-> m.perms, path |-> Reported(m),
           rss |-> KB * m.kb["Rss"], size |-> KB * m.kb["Size"], pss |-> KB * m.kb["Pss"],
           shared_clean |-> KB * m.kb["Shared_Clean"], shared_dirty |-> KB * m.kb["Shared_Dirty"],
           private_clean |-> KB * m.kb["Private_Clean"], private_dirty |-> KB * m.kb["Private_Dirty"],
           referenced |-> KB * m.kb["Referenced"], anonymous |-> KB * m.kb["Anonymous"],
           swap |-> KB * m.kb["Swap"]]
Ungrouped(maps) == [k \in 1..Len(maps) |-> Row(maps[k])]

NumFields == {"rss", "size", "pss", "shared_clean", "shared_dirty", "private_clean",
              "private_dirty", "referenced", "anonymous", "swap"}
PathsOf(rows) == {rows[k].path : k \in DOMAIN rows}
WithPath(rows, p) == LET Test(r) == r.path = p IN SelectSeq(rows, Test)
GRow(rows, p) == LET mine == WithPath(rows, p) IN
  [f \in NumFields \cup {"path"} |-> IF f = "path" THEN p ELSE SumF(mine, f)]
Grouped(rows) == {GRow(rows, p) : p \in PathsOf(rows)}

MemFields == {"rss", "vms", "shared", "text", "lib", "data", "dirty", "uss", "pss", "swap"}
AllTypes == MemFields \cup BadTypes
Percent(full, total, t) ==
  IF t \in MemFields THEN [err |-> "none", num |-> 100 * full[t], den |-> total * KB]
                     ELSE [err |-> "ValueError", num |-> 0, den |-> 1]

F(i) == LET info == Info(i)
            full == info @@ Extra(i)
            rows == Ungrouped(i.maps)
        IN [ info |-> info, full |-> full, maps |-> rows, grouped |-> Grouped(rows),
             percent |-> [t \in AllTypes |-> Percent(full, i.total, t)] ]

(* ------------------------------ state machine ---------------------------- *)
Pending == [pending |-> TRUE]

Init == /\ inp \in Inputs
        /\ out = Pending
        /\ ev = [op |-> "init"]

Observe == /\ out = Pending
           /\ out' = F(inp)
           /\ inp' = inp
           /\ ev' = [op |-> "observe", inp |-> inp, out |-> F(inp)]

Next == Observe
Spec == Init /\ [][Next]_vars

(* -------- structural facts about F, checked over the whole input space --- *)
Done == out # Pending

\* conservation: grouping neither loses nor invents memory, for any figure
GroupedConserves ==
  Done => \A f \in NumFields : SumSetF(out.grouped, f) = SumF(out.maps, f)

\* exactly one grouped row per distinct path of the listing
OneRowPerPath ==
  Done => /\ {r["path"] : r \in out.grouped} = PathsOf(out.maps)
          /\ Cardinality(out.grouped) = Cardinality(PathsOf(out.maps))
          /\ \A r \in out.grouped : \A f \in NumFields :
                r[f] = SumF(WithPath(out.maps, r["path"]), f)

\* one ungrouped row per mapping, carrying that mapping's own range, permissions and name
OneRowPerMapping ==
  Done => /\ Len(out.maps) = Len(inp.maps)
          /\ \A k \in 1..Len(inp.maps) :
               /\ out.maps[k].addr = <<inp.maps[k].lo, inp.maps[k].hi>>
               /\ out.maps[k].perms = inp.maps[k].perms
               /\ out.maps[k].path # ""
               /\ (out.maps[k].path = "[anon]") <=> (inp.maps[k].name = "")
               /\ (inp.maps[k].name # "") => (out.maps[k].path = inp.maps[k].name)

\* memory_full_info() extends memory_info() and its three extra figures are sums over the rows
FullExtendsInfo == Done => \A f \in DOMAIN out.info : out.full[f] = out.info[f]
FullFromRows ==
  Done => /\ out.full.pss = SumF(out.maps, "pss")
          /\ out.full.swap = SumF(out.maps, "swap")
          /\ out.full.uss = SumF(out.maps, "private_clean") + SumF(out.maps, "private_dirty")
                            + KB * SumF(HugeSeq(inp.maps), "v")

\* the roll-up and the listing are interchangeable sources
SourceIndependent ==
  Done => /\ FromRollup(RollupRecord(inp.maps)) = FromSmaps(inp.maps)
          /\ \A r \in {"present", "enoent", "esrch"} : F([inp EXCEPT !.rollup = r]) = out

\* memory_percent is total: a ratio for the ten field names, ValueError for anything else
PercentTotal ==
  Done => \A t \in DOMAIN out.percent :
            /\ (t \in MemFields) <=> (out.percent[t].err = "none")
            /\ (t \notin MemFields) <=> (out.percent[t].err = "ValueError")
            /\ (t \in MemFields) =>
                 /\ out.percent[t].den = inp.total * KB /\ out.percent[t].den > 0
                 /\ out.percent[t].num = 100 * out.full[t]
                 /\ (out.full[t] <= out.percent[t].den) => (out.percent[t].num \div out.percent[t].den <= 100)

\* statm and the mappings are independent sources; optional lines that carry no reported
\* memory change nothing
FlipOpt(i, l) == [i EXCEPT !.maps = [k \in 1..Len(i.maps) |->
                     [i.maps[k] EXCEPT !.opts = [i.maps[k].opts EXCEPT ![l] = ~@]]]]
Independent ==
  Done => /\ F([inp EXCEPT !.statm = <<9, 8, 7, 6, 5, 4, 3>>]).maps = out.maps
          /\ F([inp EXCEPT !.statm = <<9, 8, 7, 6, 5, 4, 3>>]).grouped = out.grouped
          /\ F([inp EXCEPT !.maps = <<>>]).info = out.info
          /\ \A l \in OptLines \ {"Private_Hugetlb"} : F(FlipOpt(inp, l)) = out

\* only the event is printed (the driver needs nothing else)
DumpL == PrintT(<<"TR", "-", ToJson(ev'), "-", TLCGet("level")>>)
=============================================================================

---------------------------- MODULE SensorsTrace ----------------------------
(***************************************************************************)
(* Trace validation for C19 (code -> spec): a seeded driver builds random, *)
(* larger hardware trees / CPU tables, asks the real psutil and logs       *)
(* <input, answers>; TLC evaluates the specification's F on every logged   *)
(* input and judges the recorded answers with Agree, which spells out what *)
(* the statement leaves open:                                              *)
(*   - dict/list results whose order is not stated are bags,               *)
(*   - thermal zones next to hwmon temperatures are tolerated (may),       *)
(*   - battery/cpu_freq answers are matched against the SET of acceptable  *)
(*     answers, seconds left within one second of now/power*3600, percent  *)
(*     within 1e-4, frequencies within 1 kHz where "cpu MHz" is a source.  *)
(* Recorded floats arrive as exact rationals over the specification's own  *)
(* denominators (m°C: 1000, °F: 5000, kHz, percent: 10000).                *)
(* The structural invariants of Sensors.tla are checked on the recorded    *)
(* inputs as well.  A rejected record is printed (with the expected        *)
(* answer) and the run goes on, so one run reports every disagreement.     *)
(***************************************************************************)
EXTENDS Sensors, IOUtils

Traces == ndJsonDeserialize(IOEnv.TRACE_FILE)

VARIABLE idx
tvars == <<idx, inp, out, ev>>

\* must <= got <= must + may, as bags
BagBetween(g, must, may) ==
  \A e \in Rng(g) \cup Rng(must) : /\ Count(must, e) <= Count(g, e)
                                   /\ Count(g, e) <= Count(must, e) + Count(may, e)

AgreeHw(o, g) == /\ g.tc.err = "" /\ g.tf.err = "" /\ g.fans.err = ""      \* the calls do not fail
                 /\ BagBetween(g.tc.list, o.c_must, o.c_may)
                 /\ BagBetween(g.tf.list, o.f_must, o.f_may)
                 /\ BagBetween(g.fans.list, o.fans, <<>>)

SecsOk(a, gs) == CASE a.k = "any" -> gs.k = "unknown" \/ (gs.k = "num" /\ gs.v >= 0)
                   [] a.k = "num" -> gs.k = "num" /\ Abs(gs.v * a.q[2] - a.q[1]) <= a.q[2]
                   [] OTHER -> gs.k = a.k
AgreeBat(o, g) == /\ g.err = ""
                  /\ \E a \in o.acc :
                       /\ a.none = g.none
                       /\ ~a.none => /\ Abs(g.pct[1] * a.pct[2] - a.pct[1] * g.pct[2]) <= a.pct[2]
                                     /\ a.plugged = g.plugged
                                     /\ SecsOk(a.secs, g.secs)

AgreeFreq(o, g) ==
  /\ g.err = ""
  /\ \E a \in o.acc :
       LET n == Len(a.list) IN
       /\ Len(g.list) = n
       /\ \A k \in 1..n : /\ Abs(g.list[k][1] - a.list[k][1]) <= o.tol
                          /\ o.mm => (g.list[k][2] = a.list[k][2] /\ g.list[k][3] = a.list[k][3])
       /\ (a.mean = None) <=> (g.mean = None)
       /\ a.mean # None => /\ Abs(g.mean[1] - a.mean[1][1]) <= n * o.tol
                           /\ o.mm => (g.mean[2] = a.mean[2][1] /\ g.mean[3] = a.mean[3][1])

AgreeCount(o, g) == g.err = "" /\ g.logical = o.logical /\ g.cores = o.cores
AgreeStat(o, g) == g.err = "" /\ g.ctx = o.ctx /\ g.intr = o.intr /\ g.soft = o.soft /\ g.btime = o.btime

Agree(o, g) == CASE o.kind = "hwmon" -> AgreeHw(o, g)
                 [] o.kind = "battery" -> AgreeBat(o, g)
                 [] o.kind = "freq" -> AgreeFreq(o, g)
                 [] o.kind = "count" -> AgreeCount(o, g)
                 [] o.kind = "stat" -> AgreeStat(o, g)

TInit == /\ idx \in 1..Len(Traces)
         /\ inp = Traces[idx].inp
         /\ out = Pending
         /\ ev = [op |-> "init"]
TNext == Observe /\ UNCHANGED idx

Match == (out # Pending) =>
           \/ Agree(out, Traces[idx].got)
           \/ PrintT(<<"REJECTED", idx, ToJson(out)>>)
=============================================================================

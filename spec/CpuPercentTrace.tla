-------------------------- MODULE CpuPercentTrace --------------------------
(***************************************************************************)
(* C07, code -> spec: a seeded driver runs the real psutil (several real   *)
(* threads, blocking and non-blocking forms, random counter snapshots with *)
(* larger deltas, counters going backwards, sub-second totals) and logs    *)
(* one line per run: the import-time configuration and the events with     *)
(* their inputs (new kernel counters, wall/process steps) and the answers  *)
(* of the code (in tenths of a percent).  This module replays every line   *)
(* with the ACTIONS OF CpuPercent (arguments bound to the logged inputs)   *)
(* and judges each logged answer against the value the specification       *)
(* publishes in ev'.  The model's state does not depend on the answers, so *)
(* a rejected answer is printed (REJECTED <<trace, event, reason>>) and    *)
(* the replay goes on: every answer of every run is judged.                *)
(***************************************************************************)
EXTENDS CpuPercent, IOUtils

Traces == ndJsonDeserialize(IOEnv.TRACE_FILE)

VARIABLES tid, l
tvars == <<vars, tid, l>>

Tr == Traces[tid].ev
E == Tr[l]

Minus(m, k) == MkSeq(Len(m), LAMBDA c : MkSeq(Len(m[c]), LAMBDA f : m[c][f] - k[c][f]))
Abs(x) == IF x < 0 THEN 0 - x ELSE x

\* |x10/10 - num/den| <= 0.05 (the code rounds to one decimal); Open: any value.
\* Written with divisions so that no logged answer can overflow TLC's integers:
\* x10 in [ceil((20 num - den) / (2 den)), floor((20 num + den) / (2 den))]
Close10(x10, q) ==
  IF q = Open THEN x10 >= 0
  ELSE LET n20 == 20 * q[1]
           d2 == 2 * q[2]
       IN /\ x10 >= 0
          /\ x10 <= (n20 + q[2]) \div d2
          /\ (n20 <= q[2] \/ x10 >= (n20 - q[2] + d2 - 1) \div d2)

Reject(why) == PrintT(<<"REJECTED", tid, l, why>>)

\* what the statement says about any answer of the system-wide functions
RowShapeOK(fn, x) ==
  IF fn = "cp" THEN x >= 0 /\ x <= 1000
  ELSE /\ \A f \in 1..nf : x[f] >= 0 /\ x[f] <= 1000
       /\ LET n == Min(nf, 8)
              s == SumTo([f \in NonGuest(nf) |-> x[f]], n)
          IN s = 0 \/ 2 * Abs(s - 1000) <= n

RowMatches(fn, x, r) ==
  IF fn = "cp" THEN Close10(x, r.q)
  ELSE \A f \in 1..nf : Close10(x[f], r.q[f])

\* e.err: "" or the name of the exception the call raised; e.x: the answer
JudgeCall(e, p) ==
  IF p.mode = "neg" THEN (e.err = "ValueError" \/ Reject("no ValueError for a negative interval"))
  ELSE IF e.err # "" THEN Reject("unexpected exception")
  ELSE \A i \in 1..Len(p.res) :
         /\ (RowShapeOK(p.fn, e.x[i])
               \/ Reject(<<"range / shares do not add up to 100", i, p.res[i].tot, p.res[i].d>>))
         /\ (p.fresh \/ RowMatches(p.fn, e.x[i], p.res[i])
               \/ Reject(<<"value", i, p.res[i].tot, p.res[i].d>>))

JudgeProc(e, p) ==
  IF p.mode = "neg" THEN (e.err = "ValueError" \/ Reject("no ValueError for a negative interval"))
  ELSE IF e.err # "" THEN Reject("unexpected exception")
  ELSE Close10(e.x, p.res) \/ Reject("process value")

JudgeTimes(e, p) == (e.err = "" /\ e.x = p.res) \/ Reject("cpu_times")

TInit == /\ tid \in 1..Len(Traces) /\ l = 1
         /\ ncpu = Traces[tid].cfg[1] /\ nf = Traces[tid].cfg[2] /\ clk = Traces[tid].cfg[3]
         /\ InitRest

Step ==
  \/ E.op = "adv" /\ KAdvance(Minus(E.cpu, cpu))
  \/ E.op = "times" /\ Times(E.form) /\ JudgeTimes(E, ev')
  \/ E.op = "call" /\ E.mode # "neg" /\ Call(E.t, E.fn, E.form, E.mode, Minus(E.mid, cpu)) /\ JudgeCall(E, ev')
  \/ E.op = "call" /\ E.mode = "neg" /\ CallNeg(E.t, E.fn, E.form) /\ JudgeCall(E, ev')
  \/ E.op = "tick" /\ Tick(E.dt)
  \/ E.op = "padv" /\ PAdvance(E.du, E.ds)
  \/ E.op = "pcall" /\ E.mode = "nb" /\ PCallNb(E.o) /\ JudgeProc(E, ev')
  \/ E.op = "pcall" /\ E.mode = "block" /\ PCallBlock(E.o, E.dt, E.du, E.ds) /\ JudgeProc(E, ev')
  \/ E.op = "pcall" /\ E.mode = "neg" /\ PCallNeg(E.o) /\ JudgeProc(E, ev')

TNext == l <= Len(Tr) /\ l' = l + 1 /\ tid' = tid /\ Step

\* every line must be consumed to its end: the harness compares the number
\* of distinct states with the number of logged events (an event that the
\* actions of the specification cannot take is a machinery failure).
=============================================================================

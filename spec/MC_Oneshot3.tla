---- MODULE MC_Oneshot3 ----
EXTENDS Oneshot
ThreadsDef == {"A"}
ProgDef == [A |-> <<"enter", "mF", "mF", "enter", "mP", "exit", "mP", "exit", "mF", "enter", "mF", "raise", "mF">>]
====

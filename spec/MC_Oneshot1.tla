---- MODULE MC_Oneshot1 ----
EXTENDS Oneshot
ThreadsDef == {"A", "B"}
ProgDef == [A |-> <<"enter", "mF", "mP", "mF", "exit", "mF">>, B |-> <<"mF", "mP">>]
====

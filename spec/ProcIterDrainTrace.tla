------------------------ MODULE ProcIterDrainTrace ------------------------
(***************************************************************************)
(* C04, code -> spec: two real threads run list(process_iter()) at once    *)
(* under the line-level scheduler while _pids_reused holds recycled PIDs.  *)
(* Each execution is logged as [errs, yielded, listing]; TLC evaluates the *)
(* two-thread clauses: no exception, every yielded sequence strictly       *)
(* ascending and a subset of the listing; and, once both threads are done, *)
(* no PID found recycled (by either thread, at whatever moment) is still   *)
(* served by the object of its former owner (`stale`, observed three       *)
(* sequential passes later).                                               *)
(***************************************************************************)
EXTENDS Naturals, Sequences, FiniteSets, TLC, Json, IOUtils
Traces == ndJsonDeserialize(IOEnv.TRACE_FILE)
VARIABLE idx
Init == idx \in 1..Len(Traces)
Next == UNCHANGED idx
T == Traces[idx]
Asc(s) == \A i \in 1..(Len(s) - 1) : s[i] < s[i + 1]
NoError == \A i \in DOMAIN T.errs : T.errs[i] = ""
Ordered == \A i \in DOMAIN T.yielded : Asc(T.yielded[i])
Listed == \A i \in DOMAIN T.yielded : \A j \in DOMAIN T.yielded[i] : \E k \in DOMAIN T.listing : T.listing[k] = T.yielded[i][j]
Fresh == Len(T.stale) = 0
\* a PID that an earlier, completed pass cached and that nothing happened to since is served by that
\* very object to every thread (`foreign`: the PIDs for which a thread was handed another one)
Same == Len(T.foreign) = 0
Accepted == (NoError /\ Ordered /\ Listed /\ Fresh /\ Same) \/ PrintT(<<"REJECTED", idx, <<NoError, Ordered, Listed, Fresh, Same>>>>)
=============================================================================

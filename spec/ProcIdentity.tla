--------------------------- MODULE ProcIdentity ---------------------------
(***************************************************************************)
(* psutil.Process identity: the (pid, create_time) tuple, the sticky       *)
(* _gone/_pid_reused flags, the module-level BOOT_TIME memo, the           *)
(* _pids_reused set, and every public operation whose outcome depends on   *)
(* them: constructor, is_running(), ==, hash(), the five signal senders,   *)
(* the four setters, ppid(), boot_time(), process_iter() (atomic form).    *)
(*                                                                         *)
(* Calls are atomic w.r.t. kernel events (events happen between calls):    *)
(* C01/C02 quantify over histories, not over mid-call races.               *)
(*                                                                         *)
(* `Fixes` selects the algorithm: {} is psutil 7.0.0 as pinned; "C01gone"  *)
(* is the repair of _raise_if_pid_reused (a gone object never signals);    *)
(* "C02mono" is the repair of _get_ident (identity from the boot-relative  *)
(* start time).  The checks run with the set matching the working tree.    *)
(***************************************************************************)
EXTENDS Kernel, TLC, Json

CONSTANTS Objs,      \* Process object slots
          CLK,       \* clock ticks per second (create_time = start/CLK + boot)
          Sigs,      \* signal numbers exercised
          Setters,   \* subset of {"nice","ionice","rlimit","affinity","affinity_all"}
          Kinds,     \* subset of {"proc", "popen"}: psutil.Process(pid) / psutil.Popen(...)
          Fixes      \* see above

VARIABLES bootMemo,    \* _pslinux.BOOT_TIME  (0 = None)
          pidsReused,  \* psutil._pids_reused
          objs,        \* [Objs -> object record | NoObj]
          ev           \* last event (observation only; hidden by VIEW)

vars == <<kvars, bootMemo, pidsReused, objs, ev>>
view == <<kvars, bootMemo, pidsReused, objs>>

NoObj == [pid |-> -1, forInc |-> 0, ident |-> 0, gone |-> FALSE, reused |-> FALSE,
          saidFalse |-> FALSE, kind |-> "-", blk |-> FALSE, waited |-> FALSE, pc |-> FALSE]

Used(o) == objs[o].pid # -1

\* BOOT_TIME or boot_time(): the value create_time() adds, and the memo after
BootRefresh == IF bootMemo = 0 THEN btime ELSE bootMemo

\* the number a Process object's identity is built from, in ticks
Ident(p) == IF "C02mono" \in Fixes THEN table[p].start
            ELSE table[p].start + CLK * BootRefresh
\* ... and whether computing it touches the BOOT_TIME memo
MemoAfterIdent == IF "C02mono" \in Fixes THEN bootMemo ELSE BootRefresh

Init == /\ KInit
        /\ bootMemo = 0
        /\ pidsReused = {}
        /\ objs = [o \in Objs |-> NoObj]
        /\ ev = [op |-> "init", btime |-> btime]

(* ---------------- kernel events (labelled for the replayer) ------------ *)
Spawn(p) == KSpawn(p) /\ UNCHANGED <<bootMemo, pidsReused, objs>>
            /\ ev' = [op |-> "k_spawn", pid |-> p, start |-> uptime, inc |-> nextInc]
Exit(p)  == KExit(p) /\ UNCHANGED <<bootMemo, pidsReused, objs>>
            /\ ev' = [op |-> "k_exit", pid |-> p]
Reap(p)  == KReap(p) /\ UNCHANGED <<bootMemo, pidsReused, objs>>
            /\ ev' = [op |-> "k_reap", pid |-> p]
Tick     == KTick /\ UNCHANGED <<bootMemo, pidsReused, objs>>
            /\ ev' = [op |-> "k_tick"]
ClockStep(b) == KClockStep(b) /\ UNCHANGED <<bootMemo, pidsReused, objs>>
            /\ ev' = [op |-> "k_clock", btime |-> b]

(* ---------------- psutil operations ------------------------------------ *)

\* psutil.Process(p)  /  psutil.Popen(...) whose child got PID p.  Popen
\* tolerates a child that is already gone (_ignore_nsp): the object exists,
\* flagged gone, with an identity that equals nothing (ident -1).
New(o, p, kd) ==
  /\ ~Used(o)
  /\ IF Live(p)
       THEN /\ objs' = [objs EXCEPT ![o] = [pid |-> p, forInc |-> table[p].inc,
                                            ident |-> Ident(p), gone |-> FALSE,
                                            reused |-> FALSE, saidFalse |-> FALSE,
                                            kind |-> kd, blk |-> FALSE, waited |-> FALSE, pc |-> FALSE]]
            /\ bootMemo' = MemoAfterIdent
            /\ ev' = [op |-> "new", o |-> o, pid |-> p, kind |-> kd, res |-> "ok"]
       ELSE IF kd = "popen" /\ p > 0
         THEN /\ objs' = [objs EXCEPT ![o] = [pid |-> p, forInc |-> 0, ident |-> -1,
                                              gone |-> TRUE, reused |-> FALSE,
                                              saidFalse |-> FALSE, kind |-> kd, blk |-> FALSE, waited |-> FALSE, pc |-> FALSE]]
              /\ UNCHANGED bootMemo
              /\ ev' = [op |-> "new", o |-> o, pid |-> p, kind |-> kd, res |-> "ok"]
         ELSE /\ UNCHANGED <<objs, bootMemo>>
              /\ ev' = [op |-> "new", o |-> o, pid |-> p, kind |-> kd, res |-> "NSP"]
  /\ UNCHANGED <<kvars, pidsReused>>

\* the user drops the reference (frees the model slot)
Drop(o) == /\ Used(o) /\ ~objs[o].blk
           /\ objs' = [objs EXCEPT ![o] = NoObj]
           /\ ev' = [op |-> "drop", o |-> o]
           /\ UNCHANGED <<kvars, bootMemo, pidsReused>>

\* is_running(): <<result, object', BOOT_TIME', _pids_reused'>>
IsRun(o) ==
  LET ob == objs[o]  p == ob.pid IN
  IF ob.gone \/ ob.reused THEN <<FALSE, ob, bootMemo, pidsReused>>
  ELSE IF ~Live(p)        THEN <<FALSE, [ob EXCEPT !.gone = TRUE], bootMemo, pidsReused>>
  ELSE IF Ident(p) # ob.ident
       THEN <<FALSE, [ob EXCEPT !.reused = TRUE, !.gone = TRUE], MemoAfterIdent,
              pidsReused \cup {p}>>
       ELSE <<TRUE, ob, MemoAfterIdent, pidsReused>>

Truth(o) == Live(objs[o].pid) /\ table[objs[o].pid].inc = objs[o].forInc

IsRunning(o) ==
  /\ Used(o)
  /\ LET r == IsRun(o) IN
     /\ objs' = [objs EXCEPT ![o] = [r[2] EXCEPT !.saidFalse = objs[o].saidFalse \/ ~r[1]]]
     /\ bootMemo' = r[3]
     /\ pidsReused' = r[4]
     /\ ev' = [op |-> "is_running", o |-> o, res |-> r[1], truth |-> Truth(o),
               hadFalse |-> objs[o].saidFalse]
  /\ UNCHANGED kvars

\* _raise_if_pid_reused(): <<raises, object', BOOT_TIME', _pids_reused'>>
RaiseIfReused(o) ==
  LET ob == objs[o] IN
  IF ob.reused THEN <<TRUE, ob, bootMemo, pidsReused>>
  ELSE LET r == IsRun(o) IN
       IF r[2].reused THEN <<TRUE, r[2], r[3], r[4]>>
       ELSE IF "C01gone" \in Fixes /\ r[2].gone THEN <<TRUE, r[2], r[3], r[4]>>
       ELSE <<FALSE, r[2], r[3], r[4]>>

\* send_signal/suspend/resume/terminate/kill -> _send_signal(sig)
Signal(o, s) ==
  /\ Used(o)
  /\ LET ob == objs[o]  p == ob.pid  r == RaiseIfReused(o) IN
     /\ bootMemo' = r[3]
     /\ pidsReused' = r[4]
     /\ IF r[1]
          THEN /\ objs' = [objs EXCEPT ![o] = r[2]]
               /\ ev' = [op |-> "signal", o |-> o, sig |-> s, pid |-> p, res |-> "NSP",
                         toInc |-> 0, forInc |-> ob.forInc, owner |-> table[p].inc]
        ELSE IF p = 0
          THEN /\ objs' = [objs EXCEPT ![o] = r[2]]
               /\ ev' = [op |-> "signal", o |-> o, sig |-> s, pid |-> p, res |-> "ValueError",
                         toInc |-> 0, forInc |-> ob.forInc, owner |-> table[p].inc]
        ELSE IF ~Live(p)   \* os.kill -> ESRCH
          THEN /\ objs' = [objs EXCEPT ![o] = [r[2] EXCEPT !.gone = TRUE]]
               /\ ev' = [op |-> "signal", o |-> o, sig |-> s, pid |-> p, res |-> "NSP",
                         toInc |-> 0, forInc |-> ob.forInc, owner |-> 0]
          ELSE /\ objs' = [objs EXCEPT ![o] = r[2]]
               /\ ev' = [op |-> "signal", o |-> o, sig |-> s, pid |-> p, res |-> "ok",
                         toInc |-> table[p].inc, forInc |-> ob.forInc, owner |-> table[p].inc]
  /\ UNCHANGED kvars

\* nice(v) / ionice(c, v) / rlimit(r, l) / cpu_affinity(l): identity check,
\* then the platform call; ESRCH -> NoSuchProcess through wrap_exceptions
\* (which, unlike _send_signal, does not set _gone)
Set(o, k) ==
  /\ Used(o)
  /\ LET ob == objs[o]  p == ob.pid  r == RaiseIfReused(o) IN
     /\ bootMemo' = r[3]
     /\ pidsReused' = r[4]
     /\ objs' = [objs EXCEPT ![o] = r[2]]
     /\ IF r[1] \/ ~Live(p)
          THEN ev' = [op |-> "set", o |-> o, kind |-> k, pid |-> p, res |-> "NSP",
                      toInc |-> 0, forInc |-> ob.forInc, owner |-> table[p].inc]
          ELSE ev' = [op |-> "set", o |-> o, kind |-> k, pid |-> p, res |-> "ok",
                      toInc |-> table[p].inc, forInc |-> ob.forInc, owner |-> table[p].inc]
  /\ UNCHANGED kvars

\* ppid(): identity check, then reads whoever owns the PID.  ppid() is one of
\* the methods oneshot() memoises: inside a block a value computed earlier in
\* the block is returned as is (no identity check, no system call).
Ppid(o) ==
  /\ Used(o)
  /\ IF objs[o].blk /\ objs[o].pc
       THEN /\ ev' = [op |-> "ppid", o |-> o, pid |-> objs[o].pid, res |-> "val",
                      forInc |-> objs[o].forInc, owner |-> objs[o].forInc, cached |-> TRUE]
            /\ UNCHANGED <<bootMemo, pidsReused, objs>>
       ELSE LET ob == objs[o]  p == ob.pid  r == RaiseIfReused(o)
                ok == ~(r[1] \/ ~Live(p)) IN
            /\ bootMemo' = r[3]
            /\ pidsReused' = r[4]
            /\ objs' = [objs EXCEPT ![o] = [r[2] EXCEPT !.pc = (ob.blk /\ ok)]]
            /\ ev' = [op |-> "ppid", o |-> o, pid |-> p,
                      res |-> IF ok THEN "val" ELSE "NSP",
                      forInc |-> ob.forInc, owner |-> table[p].inc, cached |-> FALSE]
  /\ UNCHANGED kvars

\* `with p.oneshot():` entered / left on the object.  A block changes speed,
\* never answers: nothing of the identity state depends on it (C16), so the
\* predictions of every other action are the same inside and outside.
Oneshot(o, enter) ==
  /\ Used(o) /\ "oneshot" \in Kinds /\ objs[o].blk = ~enter
  /\ objs' = [objs EXCEPT ![o].blk = enter, ![o].pc = FALSE]
  /\ ev' = [op |-> IF enter THEN "enter" ELSE "exit", o |-> o]
  /\ UNCHANGED <<kvars, bootMemo, pidsReused>>

\* wait(timeout=0) on a process that is not a child of the caller: None once
\* the PID is free (the exit code is then cached by the object), TimeoutExpired
\* while anybody owns the PID.  Identity state is not touched.
Wait0(o) ==
  /\ Used(o)
  /\ LET done == objs[o].waited \/ ~Live(objs[o].pid) IN    \* a returned wait() is remembered
     /\ ev' = [op |-> "wait", o |-> o, pid |-> objs[o].pid, res |-> IF done THEN "none" ELSE "timeout"]
     /\ objs' = [objs EXCEPT ![o].waited = done]
  /\ UNCHANGED <<kvars, bootMemo, pidsReused>>

\* a == b and hash(a) == hash(b)
Eq(a, b) ==
  /\ Used(a) /\ Used(b) /\ a # b
  /\ ev' = [op |-> "eq", a |-> a, b |-> b,
            res   |-> (objs[a].pid = objs[b].pid /\ objs[a].ident = objs[b].ident),
            truth |-> (objs[a].pid = objs[b].pid /\ objs[a].forInc = objs[b].forInc),
            blind |-> (objs[a].forInc = 0 \/ objs[b].forInc = 0)]
  /\ UNCHANGED <<kvars, bootMemo, pidsReused, objs>>

\* psutil.boot_time(): re-reads btime and overwrites the memo
BootTime ==
  /\ bootMemo' = btime
  /\ ev' = [op |-> "boot_time", res |-> btime]
  /\ UNCHANGED <<kvars, pidsReused, objs>>

\* list(process_iter()) -- atomic form; details are the subject of ProcIter.tla
IterAll ==
  /\ pidsReused' = {}
  /\ bootMemo' = MemoAfterIdent      \* the calling process is always listed
  /\ ev' = [op |-> "iter"]
  /\ UNCHANGED <<kvars, objs>>

Next == \/ \E p \in Pids : Spawn(p) \/ Exit(p) \/ Reap(p)
        \/ Tick
        \/ \E b \in Boots : ClockStep(b)
        \/ \E o \in Objs, p \in Pids, kd \in Kinds \ {"oneshot"} : New(o, p, kd)
        \/ \E o \in Objs, en \in BOOLEAN : Oneshot(o, en)
        \/ \E o \in Objs : Drop(o) \/ IsRunning(o) \/ Ppid(o) \/ (objs[o].pid > 0 /\ Wait0(o))
        \/ \E o \in Objs, s \in Sigs : Signal(o, s)
        \/ \E o \in Objs, k \in Setters : Set(o, k)
        \/ \E a, b \in Objs : Eq(a, b)
        \/ BootTime
        \/ IterAll

Spec == Init /\ [][Next]_vars

(* ---------------- properties ------------------------------------------ *)
TypeOK == KTypeOK /\ pidsReused \subseteq Pids /\ bootMemo \in Boots \cup {0}

Deliver == {"signal", "set"}

\* C01: whatever is delivered goes to the process the object was created for,
\* and never to PID <= 0
C01_NoMisdelivery ==
  [][(ev'.op \in Deliver /\ ev'.res = "ok") => ev'.toInc = ev'.forInc]_vars

\* C01: no signal is ever sent to PID 0 (or a negative PID): the OS would
\* treat it as a process group
C01_NeverGroup == [][(ev'.op = "signal" /\ ev'.res = "ok") => ev'.pid > 0]_vars

\* C01: when the PID belongs to another process the call raises NoSuchProcess
C01_ReusedRaises ==
  [][(ev'.op \in Deliver /\ ev'.owner # 0 /\ ev'.owner # ev'.forInc) => ev'.res = "NSP"]_vars

\* C05 (shared clause): ppid()/children()/parent() raise on a recycled PID
C05_PpidReusedRaises ==
  [][(ev'.op = "ppid" /\ ~ev'.cached /\ ev'.owner # 0 /\ ev'.owner # ev'.forInc) => ev'.res = "NSP"]_vars

\* C02: == follows the process, not the PID
\* (objects built for an already-gone child are outside the clause)
C02_EqTruth == [][(ev'.op = "eq" /\ ~ev'.blind) => ev'.res = ev'.truth]_vars

\* C02: is_running() is True exactly while that very process is listed
C02_RunTruth == [][ev'.op = "is_running" => ev'.res = ev'.truth]_vars

\* C02: ... and False ever after
C02_RunSticky == [][(ev'.op = "is_running" /\ ev'.hadFalse) => ev'.res = FALSE]_vars

\* Structural: a flagged object really is dead (never flags a live process)
FlagsSound == \A o \in Objs : (Used(o) /\ (objs[o].gone \/ objs[o].reused)) => ~Truth(o)

(* ---------------- transition dump for the replayer ---------------------- *)
\* canonical rendering for the dump: sets as boolean functions
viewJ == <<kvars, bootMemo, [p \in Pids |-> p \in pidsReused], objs>>
DumpL == PrintT(<<"TR", ToJson(viewJ), ToJson(ev'), ToJson(viewJ'), TLCGet("level")>>)

Bound == TRUE
=============================================================================

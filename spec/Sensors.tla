------------------------------- MODULE Sensors -------------------------------
(***************************************************************************)
(* C19 -- what sensors_temperatures(), sensors_fans(), sensors_battery(),  *)
(* cpu_freq(), cpu_count(), cpu_stats() and boot_time() must report given  *)
(* the abstract content of the kernel's hardware tree and CPU tables.      *)
(*                                                                         *)
(* "Spec as oracle" (mode 5): Init ranges over trees as abstract data      *)
(*   hwmon chips (name, nesting direct | device/, coretemp double listing) *)
(*     with temperature sensors (input, max, crit, label) and fans,        *)
(*   thermal zones with trip points,                                       *)
(*   power supplies (batteries in the energy_* or charge_* dialect, an     *)
(*     AC adapter named AC0 or AC),                                        *)
(*   cpufreq policies (policyN | cpuN/cpufreq, scaling_cur_freq |          *)
(*     cpuinfo_cur_freq, offline CPUs, "cpu MHz" lines of /proc/cpuinfo),  *)
(*   CPU topology (packages x cores x threads, the four count sources),    *)
(*   /proc/stat (ctxt, intr, softirq, btime),                              *)
(* and the single action Observe publishes the answers the statement of    *)
(* the property demands.  The specification is written from the STATEMENT, *)
(* not from the code: every number is an exact rational <<num, den>>       *)
(* (None is <<>>), collections whose order the statement leaves open are   *)
(* sequences compared as bags, and wherever the statement leaves a choice  *)
(* the result is a SET of acceptable answers (`acc`) or a pair of bags     *)
(* (`must`: entries that have to be reported, `may`: entries tolerated).   *)
(*                                                                         *)
(* A file of the tree is [st, v]: st = "absent" (no such file), "num"      *)
(* (decimal integer v and a newline), "junk" (non-numeric text) or         *)
(* "unreadable" (the file is listed but open/read fails with an OSError).  *)
(*                                                                         *)
(* Bounds are fixed by the generated cfg (harness/props/c19.py: consts):   *)
(* quick: TempVals {0, 1000, 45000, 100000}, 1-3 CPUs, Wide = FALSE        *)
(* (9.5k trees); thorough: Wide = TRUE, + 80000 and -5000 m°C, 4 CPUs      *)
(* (54k trees).  Symbolic micro-units / counters are scaled by the driver. *)
(***************************************************************************)
EXTENDS Naturals, Integers, Sequences, FiniteSets, TLC, Json

CONSTANTS Kinds,      \* input families Init enumerates: subset of {"hwmon","thermal","battery","freq","count","stat"}
          TempVals,   \* millidegree values (naturals)
          NegTemps,   \* naturals v for which -v is a millidegree value too (cfg files cannot hold negatives)
          MaxCpus,    \* cpu_freq: 1..MaxCpus CPUs
          Wide        \* TRUE: the thorough cross products

VARIABLES inp, out, ev
vars == <<inp, out, ev>>

(* ------------------------------ numbers --------------------------------- *)
None == <<>>
Milli(v) == <<v, 1000>>                                  \* m°C -> °C, kHz -> MHz
ToF(q) == IF q = None THEN None ELSE <<9 * q[1] + 160 * q[2], 5 * q[2]>>   \* q*9/5 + 32, every non-None number
Abs(x) == IF x < 0 THEN -x ELSE x
\* p <= q for positive denominators (equal denominators: no products, TLC integers are 32-bit)
Leq(p, q) == IF p[2] = q[2] THEN p[1] <= q[1] ELSE p[1] * q[2] <= q[1] * p[2]

RECURSIVE Flat(_)
Flat(ss) == IF ss = <<>> THEN <<>> ELSE Head(ss) \o Flat(Tail(ss))
RECURSIVE SumSeq(_)
SumSeq(s) == IF s = <<>> THEN 0 ELSE Head(s) + SumSeq(Tail(s))
Rng(s) == {s[k] : k \in 1..Len(s)}
Count(s, e) == Cardinality({k \in 1..Len(s) : s[k] = e})

(* ------------------------------- files ---------------------------------- *)
Absent == [st |-> "absent", v |-> 0]
Unread == [st |-> "unreadable", v |-> 0]
Junk == [st |-> "junk", v |-> 0]
Num(v) == [st |-> "num", v |-> v]
Present(f) == f.st # "absent"
\* what an OPTIONAL file tells: its number, or nothing
Val(f) == IF f.st = "num" THEN Milli(f.v) ELSE None
\* label text: "absent" | "unreadable" | the text itself
Label(l) == IF l \in {"absent", "unreadable"} THEN "" ELSE l

(* ------------------- temperatures and fans (hwmon) ----------------------- *)
\* "a missing high or critical threshold [is] filled from the other": missing
\* means the kernel gives no number, NOT that the number is zero
Backfill(h, c) == <<IF h = None THEN c ELSE h, IF c = None THEN h ELSE c>>

\* entries are <<unit name, label, current, high, critical>>
TempEntry(name, s) == LET hc == Backfill(Val(s.max), Val(s.crit))
                      IN  <<name, Label(s.label), Milli(s.input.v), hc[1], hc[2]>>
Readable(s) == s.input.st = "num"       \* missing or unreadable reading => the sensor is skipped
ChipTemps(ch) == LET ok == SelectSeq(ch.temps, Readable)
                 IN  [k \in 1..Len(ok) |-> TempEntry(ch.name, ok[k])]
ChipFans(ch) == LET ok == SelectSeq(ch.fans, Readable)
                IN  [k \in 1..Len(ok) |-> <<ch.name, Label(ok[k].label), ok[k].input.v>>]

\* thermal zones: the trip point of type "critical" / "high" (at most one each)
TripVal(z, ty) == LET idx == {k \in 1..Len(z.trips) : z.trips[k].type = ty}
                  IN  IF idx = {} THEN None ELSE Val(z.trips[CHOOSE k \in idx : TRUE].temp)
ZoneEntry(z) == LET hc == Backfill(TripVal(z, "high"), TripVal(z, "critical"))
                IN  <<z.type, "", Milli(z.temp.v), hc[1], hc[2]>>
ZoneReadable(z) == z.temp.st = "num"
ZoneTemps(zs) == LET ok == SelectSeq(zs, ZoneReadable) IN [k \in 1..Len(ok) |-> ZoneEntry(ok[k])]

TempFileExists(s) == Present(s.input) \/ Present(s.max) \/ Present(s.crit) \/ s.label # "absent"
HwmonHasTemps(i) == \E k \in 1..Len(i.chips) : \E j \in 1..Len(i.chips[k].temps) : TempFileExists(i.chips[k].temps[j])

FEntry(e) == <<e[1], e[2], ToF(e[3]), ToF(e[4]), ToF(e[5])>>
FSeq(s) == [k \in 1..Len(s) |-> FEntry(s[k])]

\* /sys/class/hwmon is reported always; /sys/class/thermal has to be reported
\* when hwmon exposes no temperature sensor at all and is tolerated otherwise
HwOut(i) ==
  LET hw == Flat([k \in 1..Len(i.chips) |-> ChipTemps(i.chips[k])])
      zs == ZoneTemps(i.zones)
      must == IF HwmonHasTemps(i) THEN hw ELSE hw \o zs
      may == IF HwmonHasTemps(i) THEN zs ELSE <<>>
  IN [ kind |-> "hwmon", c_must |-> must, c_may |-> may, f_must |-> FSeq(must), f_may |-> FSeq(may),
       fans |-> Flat([k \in 1..Len(i.chips) |-> ChipFans(i.chips[k])]) ]

(* ------------------------------ battery ---------------------------------- *)
\* a result is [none, pct, secs, plugged]; secs.k is "num" (q seconds, the
\* code may truncate), "unlimited", "unknown" or "any" (the statement is silent)
NoBattery == [none |-> TRUE, pct |-> <<0, 1>>, secs |-> [k |-> "unknown", q |-> None], plugged |-> "none"]
Unknown == [k |-> "unknown", q |-> None]

AcSays(ac) == IF ac.name = "none" THEN "none" ELSE IF ac.online = 1 THEN "true" ELSE "false"
StSays(b) == IF b.status = "Discharging" THEN "false"
             ELSE IF b.status \in {"Charging", "Full"} THEN "true" ELSE "none"
\* the adapter's `online` decides; without an adapter the battery's status
\* does; where the two contradict each other either reading is accepted
Plugs(b, ac) == LET a == AcSays(ac)  s == StSays(b)
                IN  IF a = "none" THEN {s} ELSE IF s = "none" \/ s = a THEN {a} ELSE {a, s}

Known(o) == o.st = "num"
Pct(b) == IF Known(b.now) /\ Known(b.full) THEN <<100 * b.now.v, b.full.v>> ELSE <<b.capacity.v, 1>>
Secs(b, p) == IF p = "true" THEN [k |-> "unlimited", q |-> None]
              ELSE IF Known(b.now) /\ Known(b.power)
                   THEN IF b.power.v = 0 THEN Unknown ELSE [k |-> "num", q |-> <<3600 * b.now.v, b.power.v>>]
              ELSE IF Known(b.tte) THEN [k |-> "any", q |-> None]     \* time_to_empty_now: not in the statement
              ELSE Unknown
BatResults(b, ac) == {[none |-> FALSE, pct |-> Pct(b), secs |-> Secs(b, p), plugged |-> p] : p \in Plugs(b, ac)}
\* several batteries: the statement does not say which one is "the" battery
BatOut(i) == [ kind |-> "battery",
               acc |-> IF i.bats = <<>> THEN {NoBattery}
                       ELSE UNION {BatResults(i.bats[k], i.ac) : k \in 1..Len(i.bats)} ]

(* ------------------------------ cpu_freq --------------------------------- *)
\* per CPU: cur/min/max in kHz and how the kernel exposes it:
\*   "scaling" | "cpuinfo_cur" | "both"  (which *_cur_freq files exist)
\*   "offline-nodir" (offline, its cpufreq directory is gone)
\*   "offline-dir"   (offline, cpuN/online = 0, directory left without *_cur_freq)
Online(c) == c.mode \notin {"offline-nodir", "offline-dir"}
FreqList(i, zeros) ==
  Flat([k \in 1..Len(i.cpus) |->
          LET c == i.cpus[k] IN
          IF Online(c) THEN << <<c.cur, IF i.variant = "sysfs" THEN c.min ELSE 0, IF i.variant = "sysfs" THEN c.max ELSE 0>> >>
          ELSE IF c.mode = "offline-dir" /\ zeros /\ i.variant = "sysfs" THEN << <<0, 0, 0>> >>
          ELSE <<>>])
Mean(l) == IF l = <<>> THEN None
           ELSE << <<SumSeq([k \in 1..Len(l) |-> l[k][1]]), Len(l)>>,
                   <<SumSeq([k \in 1..Len(l) |-> l[k][2]]), Len(l)>>,
                   <<SumSeq([k \in 1..Len(l) |-> l[k][3]]), Len(l)>> >>
\* without cpufreq in sysfs the only source is the "cpu MHz" lines
FreqLists(i) == IF i.variant = "cpuinfo" /\ ~i.mhz THEN {<<>>}
                ELSE {FreqList(i, TRUE), FreqList(i, FALSE)}   \* an offline CPU: zeros, or no entry
FreqOut(i) == [ kind |-> "freq",
                acc |-> {[list |-> l, mean |-> Mean(l)] : l \in FreqLists(i)},
                mm |-> i.variant = "sysfs",          \* min/max are stated only where the kernel has them
                tol |-> IF i.mhz THEN 1 ELSE 0 ]     \* "cpu MHz" has three decimals: 1 kHz

(* ------------------------------ cpu_count -------------------------------- *)
NLogical(i) == i.pk * i.cores * i.threads - i.offline
CountOut(i) == [ kind |-> "count",
                 logical |-> IF i.sysconf \/ i.proc \/ i.statcpus THEN NLogical(i) ELSE 0,   \* 0 stands for None
                 cores |-> IF i.topo # "none" \/ i.physid THEN i.pk * i.cores ELSE 0 ]

(* --------------------------- cpu_stats, boot_time ------------------------ *)
StatOut(i) == [ kind |-> "stat", ctx |-> i.ctxt, intr |-> i.intr, soft |-> i.softirq, btime |-> i.btime ]

F(i) == CASE i.kind = "hwmon" -> HwOut(i)
          [] i.kind = "battery" -> BatOut(i)
          [] i.kind = "freq" -> FreqOut(i)
          [] i.kind = "count" -> CountOut(i)
          [] i.kind = "stat" -> StatOut(i)

(* ======================= the enumerated input space ====================== *)
(* The big sets take the (dummy) parameter w = Wide so that TLC evaluates    *)
(* them only for the input families a configuration selects, not eagerly    *)
(* as constant definitions.                                                 *)
Temps == TempVals \cup {0 - v : v \in NegTemps}
Nums(V) == {Num(v) : v \in V}
Seqs1(S) == {<<a>> : a \in S}
Seqs2(S) == {<<a, b>> : a \in S, b \in S}
Seqs3(S) == {<<a, b, c>> : a \in S, b \in S, c \in S}

ReadingFiles == {Absent, Unread} \cup Nums(Temps)
ThreshFiles == {Absent, Unread, Junk} \cup Nums(Temps)
LabelSet == IF Wide THEN {"absent", "Core 0", "unreadable"} ELSE {"absent", "Core 0"}
\* every presence subset of {input, label, max, crit} x content class x value
FullTemps(w) == [input : ReadingFiles, max : ThreshFiles, crit : ThreshFiles, label : LabelSet]

T(i, m, c, l) == [input |-> i, max |-> m, crit |-> c, label |-> l]
TA1 == T(Num(45000), Num(100000), Absent, "Core 0")       \* critical filled from high
TA2 == T(Unread, Num(100000), Num(100000), "absent")      \* unreadable reading: skipped
TA3 == T(Num(1000), Absent, Absent, "absent")             \* no thresholds
TA4 == T(Absent, Num(45000), Absent, "Package id 0")      \* thresholds without a reading: skipped
TA5 == T(Num(100000), Junk, Num(45000), "Core 1")         \* non-numeric threshold, filled from critical
TA6 == T(Num(45000), Num(80000), Num(100000), "absent")   \* both thresholds
TArch == IF Wide THEN {TA1, TA2, TA3, TA4, TA5, TA6} ELSE {TA1, TA2, TA3, TA4, TA5}

Fn(i, l) == [input |-> i, label |-> l]
FA1 == Fn(Num(1200), "cpu_fan")
FA2 == Fn(Unread, "absent")
FA3 == Fn(Num(0), "absent")
FA4 == Fn(Absent, "sys_fan")
FArch == {FA1, FA2, FA3, FA4}

Chip(n, ne, d, ts, fs) == [name |-> n, nest |-> ne, dup |-> d, temps |-> ts, fans |-> fs]
\* direct, direct + listed again under /sys/devices/platform/coretemp.0, device/
Placings == {<<"direct", FALSE>>, <<"direct", TRUE>>, <<"device", FALSE>>}
Names == {"coretemp", "nct6775"}
TempSeqs == {<<>>} \cup Seqs1(TArch) \cup Seqs2(TArch)
FanSeqs == {<<>>} \cup Seqs1(FArch) \cup Seqs2(FArch)
SmallTempSeqs == {<<>>, <<TA1>>, <<TA2>>, <<TA1, TA2>>}
SmallChips == {Chip(n, p[1], p[2], ts, fs) : n \in Names, p \in Placings, ts \in SmallTempSeqs, fs \in {<<>>, <<FA1>>}}
TempChips(w) == {Chip(n, p[1], p[2], ts, fs) : n \in Names, p \in Placings, ts \in TempSeqs, fs \in {<<>>, <<FA1>>}}
FanChips(w) == {Chip(n, p[1], p[2], ts, fs) : n \in Names, p \in Placings, ts \in {<<>>, <<TA1>>}, fs \in FanSeqs}
SecondChips(w) == SmallChips \cup (IF w THEN {Chip(n, p[1], p[2], ts, <<>>) : n \in Names, p \in Placings, ts \in TempSeqs} ELSE {})
OneFull(w) == {Chip("coretemp", p[1], p[2], <<s>>, <<>>) : p \in {<<"direct", FALSE>>, <<"device", FALSE>>}, s \in FullTemps(w)}
TwoFull(w) == IF w
              THEN {Chip("k10temp", "direct", FALSE, <<s, t>>, <<>>) :
                      s \in [input : {Unread, Num(45000)}, max : ThreshFiles, crit : ThreshFiles, label : {"absent"}],
                      t \in [input : {Absent, Num(1000)}, max : {Absent, Junk, Num(0)}, crit : ThreshFiles, label : {"Core 0"}]}
              ELSE {}

Zone(ty, t, tr) == [type |-> ty, temp |-> t, trips |-> tr]
Hw(d, cs, zd, zs) == [kind |-> "hwmon", hwdir |-> d, chips |-> cs, tzdir |-> zd, zones |-> zs]
ZA == Zone("acpitz", Num(45000), <<[type |-> "critical", temp |-> Num(100000)]>>)

HwInputs(w) ==
     {Hw(d, <<>>, z, <<>>) : d \in BOOLEAN, z \in BOOLEAN}                       \* no sensors at all
  \cup {Hw(TRUE, <<c>>, FALSE, <<>>) : c \in OneFull(w) \cup TwoFull(w) \cup TempChips(w) \cup FanChips(w)}
  \cup {Hw(TRUE, <<c, d>>, FALSE, <<>>) : c \in SmallChips, d \in SecondChips(w)}
  \cup {Hw(TRUE, <<c>>, TRUE, <<ZA>>) : c \in SmallChips}                        \* hwmon and thermal side by side

\* ---- thermal zones (hwmon exposes no temperature sensor) ----
Trip(ty, t) == [type |-> ty, temp |-> t]
TripSet == {Trip("critical", Num(100000)), Trip("critical", Junk), Trip("high", Num(80000)), Trip("high", Junk),
            Trip("passive", Num(70000)), Trip("active", Num(60000))}
           \cup (IF Wide THEN {Trip("critical", Num(0)), Trip("high", Num(0)), Trip("passive", Junk)} ELSE {})
AtMostOne(tr, ty) == Cardinality({k \in 1..Len(tr) : tr[k].type = ty}) <= 1
TripSeqs(w) == {tr \in {<<>>} \cup Seqs1(TripSet) \cup Seqs2(TripSet) \cup Seqs3(TripSet) :
                  AtMostOne(tr, "critical") /\ AtMostOne(tr, "high")}
ZoneTempFiles == {Absent, Unread, Num(45000)} \cup (IF Wide THEN Nums(Temps) ELSE {})
FanOnly == Chip("nct6775", "direct", FALSE, <<>>, <<FA1>>)
ZB == Zone("x86_pkg_temp", Num(1000), <<>>)
ZC == Zone("acpitz", Unread, <<Trip("critical", Num(100000))>>)
ZD == Zone("acpitz", Num(100000), <<Trip("passive", Num(70000)), Trip("critical", Num(100000))>>)
ThermalInputs(w) ==
     {Hw(d, <<>>, TRUE, <<Zone("acpitz", t, tr)>>) : d \in BOOLEAN, t \in ZoneTempFiles, tr \in TripSeqs(w)}
  \cup {Hw(TRUE, <<FanOnly>>, TRUE, <<Zone("acpitz", Num(45000), tr)>>) : tr \in TripSeqs(w)}
  \cup {Hw(FALSE, <<>>, TRUE, <<y, z>>) : y \in {ZA, ZB, ZC, ZD}, z \in {ZA, ZB, ZC, ZD}}

\* ---- power supplies ----
O(v) == [st |-> "num", v |-> v]
NoO == [st |-> "absent", v |-> 0]
Bat(l, n, f, p, c, t, s) == [layout |-> l, now |-> n, full |-> f, power |-> p, capacity |-> c, tte |-> t, status |-> s]
Statuses == {"absent", "Discharging", "Charging", "Full", "Not charging"} \cup (IF Wide THEN {"Unknown"} ELSE {})
Acs == {[name |-> "none", online |-> 0]} \cup [name : {"AC0", "AC"}, online : {0, 1}]
NowVals == {NoO, O(40)} \cup (IF Wide THEN {O(0), O(90)} ELSE {})
PowerVals == {NoO, O(0), O(30)} \cup (IF Wide THEN {O(7)} ELSE {})
\* a battery the kernel describes well enough to have a percentage
\* layout "both": a fuel gauge that publishes the energy_* (uWh) AND the charge_* (uAh) files of one
\* battery; the two families describe the same state in different units
Bats(w) == {b \in [layout : {"energy", "charge", "both"}, now : NowVals, full : {NoO, O(80)}, power : PowerVals,
                   capacity : {NoO, O(57)}, tte : {NoO, O(30)}, status : Statuses] :
              (Known(b.now) /\ Known(b.full)) \/ Known(b.capacity)}
B1 == Bat("energy", O(40), O(80), O(30), O(50), NoO, "Discharging")
B2 == Bat("charge", O(90), O(80), NoO, NoO, NoO, "Full")
Ps(d, bs, ac) == [kind |-> "battery", psdir |-> d, bats |-> bs, ac |-> ac]
BatInputs(w) ==
     {Ps(d, <<>>, [name |-> "none", online |-> 0]) : d \in BOOLEAN}              \* no power-supply class / empty
  \cup {Ps(TRUE, <<>>, a) : a \in Acs}                                           \* a desktop: adapter only
  \cup {Ps(TRUE, <<b>>, a) : b \in Bats(w), a \in Acs}
  \cup {Ps(TRUE, <<b, c>>, a) : b \in {B1, B2}, c \in {B1, B2}, a \in Acs}

\* ---- cpufreq ----
Cpu(cur, mn, mx, m) == [cur |-> cur, min |-> mn, max |-> mx, mode |-> m]
CurVals == {800000, 2400000} \cup (IF Wide THEN {2399987} ELSE {})
OnModes == {"scaling", "cpuinfo_cur", "both"}
AllModes == OnModes \cup {"offline-nodir", "offline-dir"}
CpuAt(k, ms) == {Cpu(c, 400000 + 1000 * k, 3000000 + 100000 * k, m) : c \in CurVals, m \in ms}
CpuSeqs(w) == UNION { {<<a>> : a \in CpuAt(0, OnModes)},
                   IF MaxCpus >= 2 THEN {<<a, b>> : a \in CpuAt(0, OnModes), b \in CpuAt(1, AllModes)} ELSE {},
                   IF MaxCpus >= 3 THEN {<<a, b, c>> : a \in CpuAt(0, OnModes), b \in CpuAt(1, AllModes), c \in CpuAt(2, AllModes)} ELSE {},
                   IF MaxCpus >= 4 THEN {<<a, b, c, d>> : a \in CpuAt(0, {"scaling"}), b \in CpuAt(1, {"scaling", "offline-nodir", "offline-dir"}),
                                                           c \in CpuAt(2, {"both", "offline-dir"}), d \in CpuAt(3, AllModes)} ELSE {} }
Fq(v, l, cs, m) == [kind |-> "freq", variant |-> v, layout |-> l, cpus |-> cs, mhz |-> m]
PlainSeqs(w) == {cs \in CpuSeqs(w) : \A k \in 1..Len(cs) : cs[k].mode \in {"scaling", "offline-nodir"}}
\* one machine shows one offline behaviour (the directory goes, or it stays without *_cur_freq)
Coherent(cs) == ~(\E k \in 1..Len(cs) : cs[k].mode = "offline-nodir") \/ ~(\E k \in 1..Len(cs) : cs[k].mode = "offline-dir")
FreqInputs(w) ==
     {Fq("sysfs", l, cs, m) : l \in {"policy", "percpu"}, cs \in {x \in CpuSeqs(w) : Coherent(x)}, m \in BOOLEAN}
  \cup {Fq("cpuinfo", "none", cs, m) : cs \in PlainSeqs(w), m \in BOOLEAN}

\* ---- cpu_count ----
CountInputs(w) ==
  {i \in [kind : {"count"}, pk : 1..2, cores : 1..2, threads : 1..2, offline : 0..1,
          sysconf : BOOLEAN, proc : BOOLEAN, statcpus : BOOLEAN,
          topo : {"core_cpus", "siblings", "both", "none"}, physid : BOOLEAN] :
     /\ (i.offline = 1 => i.threads = 2)        \* the offline CPU is a second hardware thread: cores unchanged
     /\ (i.physid => i.proc)                    \* physical id / cpu cores come with the x86 processor blocks
     /\ (i.statcpus \/ w) }

\* ---- /proc/stat ----
StatInputs == [kind : {"stat"}, ctxt : {0, 7}, intr : {0, 8}, softirq : {0, 9}, btime : {1, 1000}, ncpu : 1..3]

Pending == [pending |-> TRUE]

Init == /\ \/ ("hwmon" \in Kinds /\ inp \in HwInputs(Wide))
           \/ ("thermal" \in Kinds /\ inp \in ThermalInputs(Wide))
           \/ ("battery" \in Kinds /\ inp \in BatInputs(Wide))
           \/ ("freq" \in Kinds /\ inp \in FreqInputs(Wide))
           \/ ("count" \in Kinds /\ inp \in CountInputs(Wide))
           \/ ("stat" \in Kinds /\ inp \in StatInputs)
        /\ out = Pending
        /\ ev = [op |-> "init"]

Observe == /\ out = Pending
           /\ out' = F(inp)
           /\ inp' = inp
           /\ ev' = [op |-> "observe", inp |-> inp, out |-> F(inp)]

Next == Observe
Spec == Init /\ [][Next]_vars

(* ========= structural facts about F, checked over the whole space ======== *)
Done == out # Pending
IsHw == Done /\ inp.kind = "hwmon"
AllChipTemps == Flat([k \in 1..Len(inp.chips) |-> inp.chips[k].temps])
AllChipFans == Flat([k \in 1..Len(inp.chips) |-> inp.chips[k].fans])
AllC == out.c_must \o out.c_may
AllF == out.f_must \o out.f_may

\* conservation: one entry per sensor whose reading file is there and readable,
\* none for the others, and F is total (the call succeeds) on every tree
SkipUnreadable ==
  IsHw => /\ Len(AllC) = Len(SelectSeq(AllChipTemps, Readable)) + Len(SelectSeq(inp.zones, ZoneReadable))
          /\ Len(out.fans) = Len(SelectSeq(AllChipFans, Readable))
          /\ Len(out.f_must) = Len(out.c_must) /\ Len(out.f_may) = Len(out.c_may)

\* no sensors => {} ; and nothing is ever invented
NoSensorsEmpty ==
  IsHw => /\ (SelectSeq(AllChipTemps, Readable) = <<>> /\ SelectSeq(inp.zones, ZoneReadable) = <<>> => AllC = <<>>)
          /\ (inp.chips = <<>> => out.fans = <<>>)
          /\ (\A e \in Rng(AllC) : e[1] \in {inp.chips[k].name : k \in 1..Len(inp.chips)} \cup {inp.zones[k].type : k \in 1..Len(inp.zones)})

\* after the back-fill high and critical are both known or both unknown, and a
\* threshold the kernel does give (0 included) is reported as it is
BackfillBoth ==
  IsHw => /\ \A e \in Rng(AllC) \cup Rng(AllF) : (e[4] = None) <=> (e[5] = None)
          /\ \A k \in 1..Len(inp.chips) : \A j \in 1..Len(inp.chips[k].temps) :
               LET s == inp.chips[k].temps[j] IN
               Readable(s) => \E e \in Rng(AllC) :
                                /\ e[3] = Milli(s.input.v)
                                /\ (s.max.st = "num" => e[4] = Milli(s.max.v))
                                /\ (s.crit.st = "num" => e[5] = Milli(s.crit.v))
                                /\ (s.max.st # "num" /\ s.crit.st # "num" => e[4] = None /\ e[5] = None)

\* Fahrenheit is the same table through an increasing affine map: None stays
\* None, 0 C is 32 F, 100 C is 212 F, order between reading and thresholds kept
FahrenheitAffine ==
  IsHw => \A k \in 1..Len(AllC) :
            LET c == AllC[k]  f == AllF[k] IN
            /\ c[1] = f[1] /\ c[2] = f[2]
            /\ \A x \in 3..5 : /\ (c[x] = None) <=> (f[x] = None)
                               \* F - 32 = C * 9/5, written without large products
                               /\ c[x] # None => /\ f[x][2] = 5 * c[x][2] /\ f[x][1] - 32 * f[x][2] = 9 * c[x][1]
                                                 /\ (c[x][1] = 0 => f[x][1] = 32 * f[x][2])
                                                 /\ (c[x][1] = 100 * c[x][2] => f[x][1] = 212 * f[x][2])
            /\ (c[4] # None => (Leq(c[3], c[4]) <=> Leq(f[3], f[4])))

\* what one chip contributes does not depend on the rest of the tree
ChipIndependence ==
  IsHw => \A k \in 1..Len(inp.chips) :
            LET alone == HwOut([inp EXCEPT !.chips = <<inp.chips[k]>>, !.zones = <<>>]) IN
            /\ \A e \in Rng(alone.c_must) : Count(alone.c_must, e) <= Count(out.c_must, e)
            /\ \A e \in Rng(alone.fans) : Count(alone.fans, e) <= Count(out.fans, e)

IsBat == Done /\ inp.kind = "battery"
BatterySane ==
  IsBat => /\ out.acc # {}
           /\ (inp.bats = <<>> <=> out.acc = {NoBattery})
           /\ \A a \in out.acc : ~a.none =>
                /\ a.pct[1] >= 0 /\ a.pct[2] > 0
                /\ (a.plugged = "true" <=> a.secs.k = "unlimited")           \* on mains <=> UNLIMITED
                /\ (a.secs.k = "num" => a.secs.q[1] >= 0 /\ a.secs.q[2] > 0)
           /\ \A k \in 1..Len(inp.bats) :
                LET b == inp.bats[k] IN
                (Known(b.now) /\ Known(b.full) /\ b.now.v <= b.full.v)
                   => \A a \in BatResults(b, inp.ac) : a.pct[1] <= 100 * a.pct[2]
\* the answer is the same for the energy_* and charge_* dialects
BatteryDialect ==
  IsBat => out.acc = BatOut([inp EXCEPT !.bats = [k \in 1..Len(inp.bats) |->
                                [inp.bats[k] EXCEPT !.layout = IF @ = "energy" THEN "charge" ELSE "energy"]]]).acc

IsFreq == Done /\ inp.kind = "freq"
FreqMean ==
  IsFreq => \A a \in out.acc :
     /\ (a.list = <<>>) <=> (a.mean = None)
     /\ Len(a.list) <= Len(inp.cpus)
     /\ Len(a.list) >= Len(SelectSeq(inp.cpus, Online)) - (IF inp.variant = "cpuinfo" /\ ~inp.mhz THEN Len(inp.cpus) ELSE 0)
     /\ a.list # <<>> =>
          /\ \A x \in 1..3 : a.mean[x][2] = Len(a.list)
          \* the mean lies between the smallest and the largest per-CPU value
          /\ \E k \in 1..Len(a.list) : a.list[k][1] * Len(a.list) <= a.mean[1][1]
          /\ \E k \in 1..Len(a.list) : a.list[k][1] * Len(a.list) >= a.mean[1][1]
          /\ (Len(a.list) = 1 => a.mean[1][1] = a.list[1][1])

IsCount == Done /\ inp.kind = "count"
CountSane ==
  IsCount => /\ (out.cores > 0 /\ out.logical > 0 => out.cores <= out.logical + inp.offline)
             /\ (out.logical > 0 => out.logical = inp.pk * inp.cores * inp.threads - inp.offline)
             /\ (out.logical = 0 <=> ~(inp.sysconf \/ inp.proc \/ inp.statcpus))

DumpL == PrintT(<<"TR", "s", ToJson(ev'), "t", TLCGet("level")>>)
=============================================================================

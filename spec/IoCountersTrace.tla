-------------------------- MODULE IoCountersTrace --------------------------
(***************************************************************************)
(* Trace validation for C09 (code -> spec): a seeded driver renders random *)
(* larger tables (more devices, other names, random counters) into the     *)
(* simulated kernel, records what the real public API answered, and TLC    *)
(* evaluates the specification's F on every recorded input.                *)
(*                                                                         *)
(* One NDJSON line per record:                                             *)
(*   {"inp": <input shaped as in IoCounters, sysblock as an array>,        *)
(*    "got": net   : {"pernic": {name: {field: n}}, "total": {field: n} or  *)
(*                    {"none": true}}                                      *)
(*           disk  : {"perdisk": ..., "total": ...}   (same shapes)        *)
(*           usage : {"total": n, "used": n, "free": n, "p10": tenths}}    *)
(* The driver divides the code's integers by the scale it multiplied the   *)
(* inputs with (-1 when not divisible, which no F value equals).           *)
(***************************************************************************)
EXTENDS IoCounters, IOUtils, Functions

Traces == ndJsonDeserialize(IOEnv.TRACE_FILE)

VARIABLE idx
tvars == <<idx, inp, out, ev>>

TraceInp(t) == CASE t.kind = "net"   -> [kind |-> "net", tab |-> t.tab]
                 [] t.kind = "disk"  -> [kind |-> "disk", devs |-> t.devs, sysblock |-> Range(t.sysblock)]
                 [] t.kind = "usage" -> [kind |-> "usage", blocks |-> t.blocks, bfree |-> t.bfree,
                                         bavail |-> t.bavail, frsize |-> t.frsize]

TInit == /\ idx \in 1..Len(Traces)
         /\ inp = TraceInp(Traces[idx].inp)
         /\ out = Pending
         /\ ev = [op |-> "init"]
TNext == Observe /\ UNCHANGED idx

SameMap(a, b) == DOMAIN a = DOMAIN b /\ \A k \in DOMAIN a : a[k] = b[k]

Abs(x) == IF x < 0 THEN -x ELSE x
\* p10 = the reported percentage in tenths.  The code rounds to one decimal:
\* |p10/10 - num/den| <= 1/20 ; with nothing used and nothing free the
\* quotient is undefined and any percentage in range is accepted.
PercentOk(pct, p10) == LET num == pct[1] den == pct[2] IN
                       IF den = 0 THEN p10 \in 0..1000
                       ELSE 2 * Abs(p10 * den - 10 * num) <= den

Agrees(o, g) ==
  CASE inp.kind = "net"   -> SameMap(o.pernic, g.pernic) /\ o.total = g.total
    [] inp.kind = "disk"  -> /\ SameMap(o.perdisk, g.perdisk)
                             \* listed partitions but no whole disk: the statement
                             \* leaves open whether "nothing to add" is None or zeros
                             /\ \/ o.total = g.total
                                \/ /\ o.total = None /\ DOMAIN inp.devs # {}
                                   /\ g.total = [f \in DiskFieldNames |-> 0]
    [] inp.kind = "usage" -> /\ o.total = g.total /\ o.used = g.used /\ o.free = g.free
                             /\ PercentOk(o.percent, g.p10)

\* never FALSE: every rejected record is printed (the driver turns the list
\* into findings), so one rejection does not end the validation of the rest
Match == (out # Pending) =>
           \/ Agrees(out, Traces[idx].got)
           \/ PrintT(<<"REJECTED", idx>>)

\* the structural facts also hold on every recorded (larger, random) input
TraceInvariants == /\ NetDomain /\ NetConservation /\ NetIndependent /\ NetUnusedIgnored
                   /\ DiskLineLength /\ DiskDomain /\ DiskNoDoubleCount /\ DiskIndependent
                   /\ DiskLayoutAgnostic /\ DiskPartitionLine
                   /\ UsageParts /\ UsagePercentRange
=============================================================================

-------------------------------- MODULE CExt --------------------------------
(***************************************************************************)
(* C17 -- the decoding contract of the C extension for the OS records it   *)
(* reads, as a specification-as-oracle (mode 5):                           *)
(*   utmp    login records -> users() rows                                 *)
(*   mounts  mount entries + filesystem table -> disk_partitions(all) rows *)
(*   args    entry point x argument class -> "value or Python exception"   *)
(* Memory safety itself is outside what a TLA+ specification can state: it *)
(* is observed (AddressSanitizer / UBSan) while these cases run through    *)
(* the real extension.                                                     *)
(***************************************************************************)
EXTENDS Naturals, Sequences, FiniteSets, TLC, Json

CONSTANTS Families   \* subset of {"utmp", "mounts", "args"}

VARIABLES inp, out, ev
vars == <<inp, out, ev>>
Pending == [pending |-> TRUE]

(* ---------------- utmp ---------------------------------------------------- *)
UTypes == {"USER", "DEAD", "LOGIN", "BOOT"}
Fills == {"empty", "short", "full"}            \* full = field filled to its width, no terminator
\* "colon01" = ":0.1", "colon0s" = ":0:S.0" (screen): hosts that merely BEGIN like the two local displays
HostFills == Fills \cup {"colon0", "colon00", "colon01", "colon0s"}
Width == [user |-> 32, line |-> 32, host |-> 256]

\* length of the decoded string for a fill class
FieldLen(f, fill) == IF fill = "empty" THEN 0 ELSE IF fill = "full" THEN Width[f]
                     ELSE IF fill = "colon01" THEN 4 ELSE IF fill = "colon0s" THEN 6 ELSE 5

UtmpRecs == [type : UTypes, user : Fills, line : Fills, host : HostFills]
UtmpRow(r) == [userlen |-> FieldLen("user", r.user),
               tty |-> IF r.line = "empty" THEN "None" ELSE "str", ttylen |-> FieldLen("line", r.line),
               host |-> IF r.host \in {"colon0", "colon00"} THEN "localhost" ELSE "field",
               hostlen |-> IF r.host \in {"colon0", "colon00"} THEN 9 ELSE FieldLen("host", r.host)]
UtmpInputs == [fam : {"utmp"}, recs : {<<r>> : r \in UtmpRecs}
                                      \cup {<<r, q>> : r \in {x \in UtmpRecs : x.user = "full"}, q \in {x \in UtmpRecs : x.host = "short" /\ x.line = "short"}}]
UtmpOut(i) == [rows |-> [k \in {j \in 1..Len(i.recs) : i.recs[j].type = "USER"} |-> UtmpRow(i.recs[k])]]

(* ---------------- mounts -------------------------------------------------- *)
Devs == {"/dev/sda1", "none", "tmpfs", "/dev/my disk", "pool/data"}
\* "/mnt/bslash" stands for a directory whose name holds a backslash followed by three octal digits
\* (back\040slash): the kernel prints the backslash itself as \134 and the reader decodes ONCE
Dirs == {"/", "/mnt/a b", "/mnt/tab", "/mnt/bslash", "/mnt/latin1"}
FsTypes == {"ext4", "tmpfs", "zfs", "proc"}
NoDev == {"tmpfs", "zfs", "proc"}                 \* flagged nodev in /proc/filesystems
DiskBacked == (FsTypes \ NoDev) \cup {"zfs"}      \* nodev is ignored except for zfs
\* mount options: the usual few, or an overlay-style list of 2800 bytes (a mount line
\* may be as long as the kernel cares to print it)
\* ... or options holding a byte sequence that is not UTF-8 (lowerdir=/srv/caf\xe9): the
\* outcome of the whole call is then a value or a Python exception
OptKinds == {"short", "long", "badutf8"}
OptLen(o) == IF o = "long" THEN 2800 ELSE 11
MountEnts == [dev : Devs, dir : Dirs, type : FsTypes, opts : OptKinds]
MountInputs == [fam : {"mounts"}, ents : {<<e>> : e \in MountEnts}
                                       \cup {<<e, f>> : e \in {x \in MountEnts : x.dev = "none"}, f \in {x \in MountEnts : x.type = "zfs"}},
                all : BOOLEAN]
DevOut(d) == IF d = "none" THEN "" ELSE d
Keep(i, e) == i.all \/ (DevOut(e.dev) # "" /\ e.type \in DiskBacked)
MountOut(i) == IF \E j \in 1..Len(i.ents) : i.ents[j].opts = "badutf8" THEN [class |-> "value_or_exception"] ELSE
               [rows |-> [k \in {j \in 1..Len(i.ents) : Keep(i, i.ents[j])} |->
                            [device |-> DevOut(i.ents[k].dev), mountpoint |-> i.ents[k].dir,
                             fstype |-> i.ents[k].type, optslen |-> OptLen(i.ents[k].opts)]]]

(* ---------------- argument classes --------------------------------------- *)
PidFns == {"proc_ioprio_get", "proc_cpu_affinity_get", "getpriority", "check_pid_range"}
PidArgs == {"minus2p63", "minus1", "zero", "one", "2p31m1", "2p31", "2p63", "2p64", "str", "none", "float", "noargs"}
NameFns == {"net_if_mtu", "net_if_flags", "net_if_is_running", "net_if_duplex_speed", "disk_partitions"}
\* "percent": a name made of printf conversions (the extension runs with its debug messages on)
NameArgs == {"empty", "len15", "len16", "len17", "len4096", "nul_inside", "int", "bytes", "noargs", "percent"}
SetFns == {"proc_cpu_affinity_set"}
SetArgs == {"empty_list", "neg", "huge", "dups", "2p40", "strs", "not_seq", "tuple", "generator",
            "cpu63", "cpu64", "cpu300", "cpu1023", "cpu1024", "many"}
PrioArgs == {"ok", "out_of_range", "2p31", "str"}
ArgInputs == [fam : {"args"}, fn : PidFns, arg : PidArgs]
             \cup [fam : {"args"}, fn : NameFns, arg : NameArgs]
             \cup [fam : {"args"}, fn : SetFns, arg : SetArgs]
             \cup [fam : {"args"}, fn : {"setpriority", "proc_ioprio_set"}, arg : PrioArgs]
\* whatever the argument: a value or a Python exception, never a crash
ArgOut(i) == [class |-> "value_or_exception"]

Inputs == (IF "utmp" \in Families THEN UtmpInputs ELSE {})
          \cup (IF "mounts" \in Families THEN MountInputs ELSE {})
          \cup (IF "args" \in Families THEN ArgInputs ELSE {})

F(i) == IF i.fam = "utmp" THEN UtmpOut(i) ELSE IF i.fam = "mounts" THEN MountOut(i) ELSE ArgOut(i)

Init == inp \in Inputs /\ out = Pending /\ ev = [op |-> "init"]
Observe == /\ out = Pending /\ out' = F(inp) /\ inp' = inp
           /\ ev' = [op |-> "observe", inp |-> inp, out |-> F(inp)]
Next == Observe
Spec == Init /\ [][Next]_vars
Done == out # Pending

\* structural facts
StringsWithinWidth == (Done /\ inp.fam = "utmp") =>
   \A k \in DOMAIN out.rows : out.rows[k].userlen <= 32 /\ out.rows[k].ttylen <= 32 /\ out.rows[k].hostlen <= 256
OnlyUserProcess == (Done /\ inp.fam = "utmp") => Cardinality(DOMAIN out.rows) = Cardinality({j \in 1..Len(inp.recs) : inp.recs[j].type = "USER"})
Decodable == \A j \in 1..Len(inp.ents) : inp.ents[j].opts # "badutf8"
AllKeepsEverything == (Done /\ inp.fam = "mounts" /\ inp.all /\ Decodable) => Cardinality(DOMAIN out.rows) = Len(inp.ents)
FilterNeedsDevice == (Done /\ inp.fam = "mounts" /\ ~inp.all /\ Decodable) => \A k \in DOMAIN out.rows : out.rows[k].device # ""

DumpL == PrintT(<<"TR", ToJson(<<inp, out>>), ToJson(ev'), ToJson(<<inp', out'>>), TLCGet("level")>>)
=============================================================================

--------------------------- MODULE SettingsTrace ---------------------------
(***************************************************************************)
(* C18, code -> spec.  A seeded random driver calls nice / ionice /        *)
(* cpu_affinity / rlimit of the real psutil on two or three processes      *)
(* (simulated kernel: up to 24 CPUs, cpusets with holes, all 16 resources; *)
(* live kernel: real children) and logs every call with its arguments, the *)
(* class of its result, the returned value and the kernel state read back  *)
(* through independent channels.  This monitor replays each recorded       *)
(* history over Settings' kernel variables: a set is accepted iff one of   *)
(* the outcomes Settings allows for that request has the logged result     *)
(* class AND produces exactly the logged kernel state (every process,      *)
(* every setting, every resource); a get iff it returned what the kernel   *)
(* state says and changed nothing.  One TLC run judges thousands of        *)
(* histories: TInit picks one, REJECTED/DONE lines report the verdicts.    *)
(***************************************************************************)
EXTENDS Settings, IOUtils

Traces == ndJsonDeserialize(IOEnv.TRACE_FILE)

VARIABLES tid, l, why
tvars == <<booted, elig, denied, sysres, flavor, nice, ioprio, aff, rlim, ev, tid, l, why>>

Tr == Traces[tid]
E == Tr.steps[l]

\* kernel state as the independent channels report it
RepOf(n, i, a, rl) ==
  [nice |-> n,
   ior |-> [p \in P |-> IF i[p][1] = 0 /\ flavor = "derived" THEN <<2, (n[p] + 20) \div 5>> ELSE i[p]],
   aff |-> [p \in P |-> AscSeq(a[p])],
   rl |-> rl]

TInit == /\ tid \in 1..Len(Traces) /\ l = 1 /\ why = "ok"
         /\ booted = TRUE
         /\ elig = [p \in P |-> Range(Tr.elig[p])]
         /\ denied = Range(Tr.denied)
         /\ sysres = Tr.sysres
         /\ flavor = Tr.flavor
         /\ nice = Tr.k0.nice
         /\ ioprio = Tr.k0.io
         /\ aff = [p \in P |-> Range(Tr.k0.aff[p])]
         /\ rlim = Tr.k0.rl
         /\ ev = [op |-> "init"]

Match(allowed, logged) == allowed = logged \/ (allowed = "error" /\ logged # "ok")

OutcomesOf(e) ==
  IF e.op = "nice_set" THEN NiceOutcomes(e.p, e.arg)
  ELSE IF e.op = "ionice_set" THEN IoOutcomes(e.p, e.arg[1], e.arg[2])
  ELSE IF e.op = "affinity_set" THEN AffOutcomes(e.p, e.arg)
  ELSE RlimOutcomes(e.p, e.r, e.arg)

NiceAfter(e, o) == IF e.op = "nice_set" THEN [nice EXCEPT ![e.p] = o.nv] ELSE nice
IoAfter(e, o) == IF e.op = "ionice_set" THEN [ioprio EXCEPT ![e.p] = o.nv] ELSE ioprio
AffAfter(e, o) == IF e.op = "affinity_set" THEN [aff EXCEPT ![e.p] = o.nv] ELSE aff
RlimAfter(e, o) == IF e.op = "rlimit_set" THEN [rlim EXCEPT ![e.p][e.r] = o.nv] ELSE rlim
RepAfter(e, o) == RepOf(NiceAfter(e, o), IoAfter(e, o), AffAfter(e, o), RlimAfter(e, o))

GetVal(e) == IF e.op = "nice_get" THEN nice[e.p]
             ELSE IF e.op = "ionice_get" THEN KIo(e.p)
             ELSE IF e.op = "affinity_get" THEN AscSeq(aff[e.p])
             ELSE rlim[e.p][e.r]
GetRes(e) == IF e.op = "rlimit_get" /\ e.p \in denied THEN "denied" ELSE "ok"

\* a rejected step is reported; the monitor then adopts the logged kernel
\* state and goes on, so that one (possibly signed) defect does not hide the
\* rest of the history
Reject(reason) == /\ why' = "ok"
                  /\ PrintT(<<"REJECTED", tid, l, reason>>)
                  /\ nice' = E.k.nice /\ ioprio' = E.k.io
                  /\ aff' = [p \in P |-> Range(E.k.aff[p])]
                  /\ rlim' = E.k.rl

KEq(k, rep) == k.nice = rep.nice /\ k.ior = rep.ior /\ k.aff = rep.aff /\ k.rl = rep.rl

StepGet == /\ E.op \in GetOps
           /\ IF ~KEq(E.k, RepOf(nice, ioprio, aff, rlim)) THEN Reject("kernel-state")
              ELSE IF E.res # GetRes(E) THEN Reject("result-class")
              ELSE IF E.res = "ok" /\ E.val # GetVal(E) THEN Reject("get-value")
              ELSE why' = "ok" /\ UNCHANGED kvars

StepSet == /\ E.op \in SetOps
           /\ LET outs == OutcomesOf(E)
                  cands == {o \in outs : Match(o.res, E.res) /\ KEq(E.k, RepAfter(E, o))} IN
              IF cands = {}
                THEN Reject(IF \E o \in outs : Match(o.res, E.res) THEN "kernel-state" ELSE "result-class")
                ELSE LET o == CHOOSE x \in cands : TRUE IN
                     /\ nice' = NiceAfter(E, o) /\ ioprio' = IoAfter(E, o)
                     /\ aff' = AffAfter(E, o) /\ rlim' = RlimAfter(E, o)
                     /\ why' = "ok"

Finish == /\ why = "ok" /\ l = Len(Tr.steps) + 1
          /\ l' = l + 1 /\ why' = "done"
          /\ PrintT(<<"DONE", tid>>)
          /\ UNCHANGED <<booted, cvars, kvars, ev, tid>>

TNext == \/ /\ why = "ok" /\ l <= Len(Tr.steps)
            /\ l' = l + 1
            /\ UNCHANGED <<booted, cvars, ev, tid>>
            /\ (StepGet \/ StepSet)
         \/ Finish

=============================================================================

--------------------------- MODULE ProcMemTrace ----------------------------
(***************************************************************************)
(* Trace validation for C13 (code -> spec): a seeded driver feeds random,  *)
(* larger kernel records (up to a dozen mappings, arbitrary figures,       *)
(* repeated and odd paths) to the real code and logs <input, answers>;     *)
(* TLC evaluates the specification's F on every logged input and compares. *)
(* Rows are compared as sets (the API states no order); the number of rows *)
(* is compared too, so a duplicated row cannot hide in the set.            *)
(***************************************************************************)
EXTENDS ProcMem, IOUtils, SequencesExt, Functions

Traces == ndJsonDeserialize(IOEnv.TRACE_FILE)

VARIABLE idx
tvars == <<idx, inp, out, ev>>

Same(o, g) == /\ g.info = o.info
              /\ g.full = o.full
              /\ Len(g.maps) = Len(o.maps)
              /\ Range(g.maps) = Range(o.maps)
              /\ Len(g.grouped) = Cardinality(o.grouped)
              /\ Range(g.grouped) = o.grouped
              /\ g.percent = o.percent

TInit == /\ idx \in 1..Len(Traces)
         /\ inp = Traces[idx].inp
         /\ out = Pending
         /\ ev = [op |-> "init"]
TNext == Observe /\ UNCHANGED idx

Match == (out # Pending) =>
           \/ Same(out, Traces[idx].got)
           \/ PrintT(<<"REJECTED", idx>>) /\ FALSE
=============================================================================

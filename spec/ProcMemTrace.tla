--------------------------- MODULE ProcMemTrace ----------------------------
(***************************************************************************)
(* Trace validation for C13 (code -> spec): a seeded driver feeds random,  *)
(* larger kernel records (up to a dozen mappings, arbitrary figures,       *)
(* repeated and odd paths) to the real code and logs <input, answers>;     *)
(* TLC evaluates the specification's F on every logged input and compares. *)
(* Rows are compared as sets (the API states no order); the number of rows *)
(* is compared too, so a duplicated row cannot hide in the set.            *)
(***************************************************************************)
EXTENDS ProcMem, IOUtils, SequencesExt, Functions

Traces == ndJsonDeserialize(IOEnv.TRACE_FILE)

VARIABLE idx
tvars == <<idx, inp, out, ev>>

\* the answers that differ from the specification's, by name
Differ(o, g) ==
     (IF g.info = o.info THEN {} ELSE {"memory_info"})
  \cup (IF g.full = o.full THEN {} ELSE {"memory_full_info"})
  \cup (IF Len(g.maps) = Len(o.maps) /\ Range(g.maps) = Range(o.maps) THEN {} ELSE {"memory_maps(grouped=False)"})
  \cup (IF Len(g.grouped) = Cardinality(o.grouped) /\ Range(g.grouped) = o.grouped THEN {} ELSE {"memory_maps(grouped=True)"})
  \cup (IF g.percent = o.percent THEN {} ELSE {"memory_percent"})

TInit == /\ idx \in 1..Len(Traces)
         /\ inp = Traces[idx].inp
         /\ out = Pending
         /\ ev = [op |-> "init"]
TNext == Observe /\ UNCHANGED idx

Match == (out # Pending) =>
           \/ Differ(out, Traces[idx].got) = {}
           \/ PrintT(<<"REJECTED", idx, Differ(out, Traces[idx].got)>>) /\ FALSE
=============================================================================

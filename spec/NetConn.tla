------------------------------ MODULE NetConn ------------------------------
(***************************************************************************)
(* C11 -- what net_connections(kind) and Process.net_connections(kind)     *)
(* must return given the kernel's socket tables (/proc/net/tcp, tcp6, udp, *)
(* udp6, unix at the level of fields) and the descriptor tables of the     *)
(* processes (which (pid, fd) refers to which socket).                     *)
(*                                                                         *)
(* "Spec as oracle": Init ranges over the abstract input space, the single *)
(* action Observe publishes F(input).  Because the statement leaves some   *)
(* outcomes open (which holder of a shared inet socket is named, whether a *)
(* SOCK_SEQPACKET UNIX socket belongs to the kinds "unix"/"all"), F does   *)
(* not return one list of rows but one *expectation group* per socket, and *)
(* Conforms(expectation, answer) is the acceptance relation.  The same     *)
(* relation judges answers recorded from the real code (NetConnTrace).     *)
(*                                                                         *)
(* Addresses are opaque symbols (the harness maps a symbol to the bytes    *)
(* the kernel prints and back); ports are integers; UNIX names are byte    *)
(* sequences exactly as /proc/net/unix shows them (abstract names start    *)
(* with "@" = 64); "no pid" is 0 and "no descriptor" is -1.                *)
(***************************************************************************)
EXTENDS Naturals, Integers, Sequences, FiniteSets, TLC, Json

CONSTANTS PIDs,       \* processes that may hold sockets
          IdlePid,    \* a live process that holds no socket
          FDs,        \* descriptor numbers
          Addr4,      \* IPv4 address symbols
          Addr6,      \* IPv6 address symbols
          Ports,      \* port numbers (0 among them)
          PathNames,  \* which of the UNIX names of PathOf are enumerated
          BadKinds,   \* strings that are not a kind
          Spaces,     \* which sub-spaces of inputs Init enumerates
          NTempl,     \* number of socket templates used by the table space
          T2Kinds, T2Whos,            \* tables of 2 sockets: kinds and callers crossed with them
          T3Kinds, T3Whos, T3Slots,   \* tables of 3 sockets (T3Slots: the slots pid * 1000 + fd that may hold)
          T4Kinds, T4Whos, T4Slots    \* tables of 4 sockets

VARIABLES inp, out, ev
vars == <<inp, out, ev>>

(* ------------------------------ vocabulary ------------------------------ *)
TcpStates == {"ESTABLISHED", "SYN_SENT", "SYN_RECV", "FIN_WAIT1", "FIN_WAIT2", "TIME_WAIT",
              "CLOSE", "CLOSE_WAIT", "LAST_ACK", "LISTEN", "CLOSING"}
\* mini-sockets of the kernel (request / timewait): listed with inode 0, never
\* referenced by a descriptor
Unheld == {"TIME_WAIT", "SYN_RECV"}
\* st column of a UDP line: 07 (unconnected) or 01 (connected)
UdpStates == {"CLOSE", "ESTABLISHED"}

\* the documented kind table: kind -> (families, types)
KindFams == [all   |-> {"inet4", "inet6", "unix"},
             tcp   |-> {"inet4", "inet6"}, tcp4 |-> {"inet4"}, tcp6 |-> {"inet6"},
             udp   |-> {"inet4", "inet6"}, udp4 |-> {"inet4"}, udp6 |-> {"inet6"},
             unix  |-> {"unix"},
             inet  |-> {"inet4", "inet6"}, inet4 |-> {"inet4"}, inet6 |-> {"inet6"}]
KindTypes == [all  |-> {"stream", "dgram"},
              tcp  |-> {"stream"}, tcp4 |-> {"stream"}, tcp6 |-> {"stream"},
              udp  |-> {"dgram"}, udp4 |-> {"dgram"}, udp6 |-> {"dgram"},
              unix |-> {"stream", "dgram"},
              inet |-> {"stream", "dgram"}, inet4 |-> {"stream", "dgram"}, inet6 |-> {"stream", "dgram"}]
ValidKinds == DOMAIN KindFams

\* the same table formulated the other way round (which kernel tables a kind
\* reads); KindLattice below checks that the two formulations agree
Leaves == [all   |-> {"tcp4", "tcp6", "udp4", "udp6", "unix"},
           tcp   |-> {"tcp4", "tcp6"}, tcp4 |-> {"tcp4"}, tcp6 |-> {"tcp6"},
           udp   |-> {"udp4", "udp6"}, udp4 |-> {"udp4"}, udp6 |-> {"udp6"},
           unix  |-> {"unix"},
           inet  |-> {"tcp4", "tcp6", "udp4", "udp6"},
           inet4 |-> {"tcp4", "udp4"}, inet6 |-> {"tcp6", "udp6"}]

NoAddr == <<"-", 0>>
Inet(fam, type, l, r, st) == [fam |-> fam, type |-> type, l |-> l, r |-> r, st |-> st, path |-> <<>>]
Unix(type, path) == [fam |-> "unix", type |-> type, l |-> NoAddr, r |-> NoAddr, st |-> "-", path |-> path]

IsTcp(s) == s.fam # "unix" /\ s.type = "stream"
HasSpace(p) == \E i \in 1..Len(p) : p[i] = 32

(* ------------------------------- F(input) ------------------------------- *)
(* input = [socks : Seq(socket), hold : SUBSET (pid \X fd \X index),       *)
(*          kind : STRING, who : 0 (system-wide form) or a pid]            *)

Admits(kind, s)   == s.fam \in KindFams[kind] /\ s.type \in KindTypes[kind]
\* SOCK_SEQPACKET exists only for UNIX sockets; the documentation of the kind
\* "unix" speaks of "both UDP and TCP protocols": left open, accepted either way
Optional(kind, s) == s.fam = "unix" /\ s.type = "seqpacket" /\ "unix" \in KindFams[kind]

Holders(i, k) == {<<h[1], h[2]>> : h \in {x \in i.hold : x[3] = k}}
Visible(i, k) == IF i.who = 0 THEN Holders(i, k) ELSE {h \in Holders(i, k) : h[1] = i.who}

Addr(a)   == IF a[2] = 0 THEN <<>> ELSE a
Status(s) == IF IsTcp(s) THEN s.st ELSE "NONE"
Fields(s) == [fam    |-> s.fam,
              type   |-> s.type,
              laddr  |-> IF s.fam = "unix" THEN <<s.path>> ELSE Addr(s.l),
              raddr  |-> IF s.fam = "unix" THEN <<>> ELSE Addr(s.r),
              status |-> Status(s)]

Selected(i) == {k \in 1..Len(i.socks) :
                   /\ Admits(i.kind, i.socks[k]) \/ Optional(i.kind, i.socks[k])
                   /\ i.who # 0 => Visible(i, k) # {}}

Nobody == <<0, -1>>

\* One expectation group per selected socket:
\*   f      -- the fields every row of this socket carries
\*   owners -- the (pid, fd) pairs a row of this socket may carry
\*   need   -- alternatives: for at least one N in need, every owner of N must
\*             appear on a row.  UNIX: all holders; inet: any one holder;
\*             optional socket: nothing.
Group(i, k) ==
  LET s  == i.socks[k]
      vs == Visible(i, k)
      ow == IF vs = {} THEN {Nobody} ELSE vs
  IN [s |-> k, f |-> Fields(s), owners |-> ow,
      need |-> IF Optional(i.kind, s) /\ ~Admits(i.kind, s) THEN {{}}
               ELSE IF s.fam = "unix" THEN {ow}
               ELSE {{o} : o \in ow}]

Groups(i) == {Group(i, k) : k \in Selected(i)}

F(i) == IF i.kind \in ValidKinds THEN [err |-> "none", groups |-> Groups(i)]
        ELSE [err |-> "ValueError", groups |-> {}]

(* ------------------------ the acceptance relation ------------------------ *)
(* answer = [err : "none" | "ValueError" | ..., rows : set of              *)
(*           [f, pid, fd, n]]  (n = how many times the row was returned)   *)
RowOf(g, o) == [f |-> g.f, pid |-> o[1], fd |-> o[2]]
Adm(g)      == {RowOf(g, o) : o \in g.owners}
Bare(r)     == [f |-> r.f, pid |-> r.pid, fd |-> r.fd]

Invented(exp, got)   == {r \in got.rows : \A g \in exp.groups : Bare(r) \notin Adm(g)}
Duplicated(exp, got) == {r \in got.rows : r.n > Cardinality({g \in exp.groups : Bare(r) \in Adm(g)})} \ Invented(exp, got)
Unmet(exp, got)      == LET have == {Bare(r) : r \in got.rows}
                        IN {g \in exp.groups : \A N \in g.need : \E o \in N : RowOf(g, o) \notin have}

\* an inet socket is listed once however many descriptors (of however many processes) refer to it;
\* rows that several sockets with the same fields and holders admit are shared between them
RECURSIVE SumN(_)
SumN(R) == IF R = {} THEN 0 ELSE LET r == CHOOSE r \in R : TRUE IN r.n + SumN(R \ {r})
Overcounted(exp, got) ==
  {g \in exp.groups : /\ g.f.fam # "unix"
                      /\ SumN({r \in got.rows : Bare(r) \in Adm(g)})
                           > Cardinality({h \in exp.groups : Adm(h) \cap Adm(g) # {}})}

Conforms(exp, got) ==
  /\ Overcounted(exp, got) = {}   \* one row per inet socket
  /\ got.err = exp.err
  /\ Invented(exp, got) = {}       \* nothing but the table's sockets, right fields, a real holder
  /\ Duplicated(exp, got) = {}     \* every socket once
  /\ Unmet(exp, got) = {}          \* every socket

(* ---- shapes of the signed / reported defects (diagnosis only) ----------- *)
(* A disagreement that is explained by one of these shapes is reported     *)
(* under the shape's own signature; Conforms itself is never weakened.     *)
Shapes == {"unix-shared-between-pids", "unix-path-with-space"}
PidsOf(ow) == {o[1] : o \in ow}

GroupK(i, k, K) ==
  LET g == Group(i, k)
      s == i.socks[k]
      spaced == "unix-path-with-space" \in K /\ s.fam = "unix" /\ HasSpace(s.path)
      shared == /\ "unix-shared-between-pids" \in K /\ s.fam = "unix" /\ i.who = 0
                /\ Cardinality(PidsOf(g.owners)) >= 2 /\ g.need # {{}}
  IN [g EXCEPT !.f.laddr = IF spaced THEN << <<>> >> ELSE @,
               !.need = IF shared THEN {{o \in g.owners : o[1] = p} : p \in PidsOf(g.owners)} ELSE @]

FK(i, K) == IF i.kind \in ValidKinds THEN [err |-> "none", groups |-> {GroupK(i, k, K) : k \in Selected(i)}]
            ELSE F(i)
Applies(i, K) == \A x \in K : FK(i, K) # FK(i, K \ {x})
Alts(i) == {[tags |-> K, out |-> FK(i, K)] : K \in {K \in SUBSET Shapes : K # {} /\ Applies(i, K)}}

\* why an answer is rejected: clause, family, type
Why(exp, got) ==
  (IF got.err # exp.err THEN {<<"error", exp.err, got.err>>} ELSE {})
  \cup {<<"unexpected-row", r.f.fam, r.f.type>> : r \in Invented(exp, got)}
  \cup {<<"duplicate-row", r.f.fam, r.f.type>> : r \in Duplicated(exp, got)}
  \cup {<<"missing-row", g.f.fam, g.f.type>> : g \in Unmet(exp, got)}
  \cup {<<"row-per-holder", g.f.fam, g.f.type>> : g \in Overcounted(exp, got)}

\* the clauses that no defect shape explains away (all of them when every one
\* is explained by some shape but the answer as a whole by none)
WhyCore(i, got) ==
  LET all  == Why(F(i), got)
      core == {t \in all : \A a \in Alts(i) : t \in Why(a.out, got)}
  IN IF core = {} THEN all ELSE core

\* {} when the answer conforms; otherwise the smallest sets of shapes that
\* explain it, or {{"other"}}
Verdict(i, got) ==
  IF Conforms(F(i), got) THEN {}
  ELSE LET ks == {a.tags : a \in {a \in Alts(i) : Conforms(a.out, got)}}
           mn == {K \in ks : \A K2 \in ks : Cardinality(K) <= Cardinality(K2)}
       IN IF mn = {} THEN {{"other"}} ELSE mn

(* ------------------------------ input space ------------------------------ *)
Slots == PIDs \X FDs
Whos  == {0} \cup PIDs \cup {IdlePid}
AllKinds == ValidKinds \cup BadKinds
MinOf(S) == CHOOSE x \in S : \A y \in S : x <= y

Presentable(socks, hold) ==
  \A h \in hold : ~(IsTcp(socks[h[3]]) /\ socks[h[3]].st \in Unheld)

Mk(socks, hold, kind, who) == [socks |-> socks, hold |-> hold, kind |-> kind, who |-> who]

\* UNIX names as /proc/net/unix shows them (a cfg file cannot hold tuples)
PathOf == [unbound  |-> <<>>,
           plain    |-> <<47, 116, 47, 97>>,                    \* /t/a
           abstract |-> <<64, 100>>,                            \* @d
           spaced   |-> <<47, 116, 47, 97, 32, 98>>,            \* /t/a b
           absspace |-> <<64, 97, 32, 98>>,                     \* @a b
           twospace |-> <<47, 116, 47, 97, 32, 32, 98, 32, 99>>, \* /t/a  b c
           atsign   |-> <<47, 116, 47, 64, 97>>,                \* /t/@a
           long     |-> <<47, 114, 117, 110, 47, 117, 115, 101, 114, 47, 49, 48, 48, 48, 47, 98, 117, 115>>]  \* /run/user/1000/bus
Paths == {PathOf[n] : n \in PathNames}
SlotsOf(codes) == {<<c \div 1000, c % 1000>> : c \in codes}

Classes == {"tcp4", "tcp6", "udp4", "udp6", "ustream", "udgram", "useq"}
Base == [tcp4    |-> Inet("inet4", "stream", <<"127.0.0.1", 631>>, <<"0.0.0.0", 0>>, "LISTEN"),
         tcp6    |-> Inet("inet6", "stream", <<"::1", 631>>, <<"::", 0>>, "LISTEN"),
         udp4    |-> Inet("inet4", "dgram", <<"0.0.0.0", 68>>, <<"0.0.0.0", 0>>, "CLOSE"),
         udp6    |-> Inet("inet6", "dgram", <<"fe80::1", 546>>, <<"::", 0>>, "CLOSE"),
         ustream |-> Unix("stream", <<47, 116, 47, 97>>),
         udgram  |-> Unix("dgram", <<64, 100>>),
         useq    |-> Unix("seqpacket", <<>>)]

HoldOf(h, slots) == {<<x[1], x[2], h[x]>> : x \in {y \in slots : h[y] # 0}}

(* Each sub-space is a predicate on the input (TLC enumerates the bound     *)
(* variables; building the spaces as sets first costs a sort of deep        *)
(* records).                                                                *)

\* (1) every class of socket x every holder situation x every kind x every caller
KindSpace(i) == \E c \in Classes, h \in [Slots -> 0..1], k \in AllKinds, w \in Whos :
                  i = Mk(<<Base[c]>>, HoldOf(h, Slots), k, w)

\* (2) every local x remote address and port of one inet socket
OneHolder == {{}, {<<MinOf(PIDs), MinOf(FDs), 1>>}}
AddrSpaceOf(i, fam, A) ==
  \E ty \in {"stream", "dgram"}, l \in A \X Ports, r \in A \X Ports, h \in OneHolder :
     i = Mk(<<Inet(fam, ty, l, r, IF ty = "stream" THEN "ESTABLISHED" ELSE "CLOSE")>>, h, "all", 0)
AddrSpace(i) == AddrSpaceOf(i, "inet4", Addr4) \/ AddrSpaceOf(i, "inet6", Addr6)

\* (3) every st value of a TCP / UDP line
LocalOf  == [inet4 |-> <<"10.0.0.5", 22>>, inet6 |-> <<"2001:db8::1", 22>>]
RemoteOf == [inet4 |-> <<"127.0.0.1", 40521>>, inet6 |-> <<"::ffff:127.0.0.1", 40521>>]
StateSpace(i) ==
  \E fam \in {"inet4", "inet6"},
     ts \in ({"stream"} \X TcpStates) \cup ({"dgram"} \X UdpStates),
     h \in [Slots -> 0..1], k \in {"tcp", "udp", "all"}, w \in {0} \cup PIDs :
     LET socks == <<Inet(fam, ts[1], LocalOf[fam], RemoteOf[fam], ts[2])>>
         hold  == HoldOf(h, Slots)
     IN Presentable(socks, hold) /\ i = Mk(socks, hold, k, w)

\* (4) every UNIX name x type x holder situation
PathSpace(i) == \E ty \in {"stream", "dgram", "seqpacket"}, p \in Paths,
                   h \in [Slots -> 0..1], k \in {"unix", "all", "inet"}, w \in Whos :
                  i = Mk(<<Unix(ty, p)>>, HoldOf(h, Slots), k, w)

\* (5) tables of several sockets sharing holders
Templ == << Base["tcp4"],
            Inet("inet4", "stream", <<"127.0.0.1", 631>>, <<"127.0.0.1", 40521>>, "ESTABLISHED"),
            Base["ustream"],
            Base["ustream"],      \* an accepted connection shows the listener's name: same fields, other inode
            Base["udp6"],
            Base["udgram"],
            Unix("stream", <<47, 116, 47, 97, 32, 98>>),
            Base["tcp6"],
            Inet("inet4", "stream", <<"127.0.0.1", 631>>, <<"10.0.0.5", 65535>>, "TIME_WAIT"),
            Base["useq"],
            Base["udp4"] >>
IncSeqs(n, m) == {s \in [1..n -> 1..m] : \A a \in 1..(n - 1) : s[a] < s[a + 1]}
TableSpaceN(i, n, kinds, whos, slots) ==
  \E s \in IncSeqs(n, NTempl), h \in [slots -> 0..n], k \in kinds, w \in whos :
     LET socks == [a \in 1..n |-> Templ[s[a]]]
         hold  == HoldOf(h, slots)
     IN Presentable(socks, hold) /\ i = Mk(socks, hold, k, w)
TableSpace(i) == \/ TableSpaceN(i, 2, T2Kinds, T2Whos, Slots)
                 \/ TableSpaceN(i, 3, T3Kinds, T3Whos, SlotsOf(T3Slots))
                 \/ TableSpaceN(i, 4, T4Kinds, T4Whos, SlotsOf(T4Slots))

InInputs(i) == \/ "kind"  \in Spaces /\ KindSpace(i)
               \/ "addr"  \in Spaces /\ AddrSpace(i)
               \/ "state" \in Spaces /\ StateSpace(i)
               \/ "path"  \in Spaces /\ PathSpace(i)
               \/ "table" \in Spaces /\ TableSpace(i)

(* ------------------------------ the machine ------------------------------ *)
Pending == [pending |-> TRUE]

Init == /\ InInputs(inp)
        /\ out = Pending
        /\ ev = [op |-> "init"]

Observe == /\ out = Pending
           /\ out' = F(inp)
           /\ inp' = inp
           /\ ev' = [op |-> "observe", inp |-> inp, out |-> F(inp), alts |-> Alts(inp)]

Next == Observe
Spec == Init /\ [][Next]_vars

(* ---- structural facts about F, checked over the whole input space ------- *)
Done == out # Pending
With(k, w) == [inp EXCEPT !.kind = k, !.who = w]

\* totality: an unknown kind is an error whatever the tables hold, a known kind never is
ErrorIffUnknownKind ==
  Done => /\ (out.err = "ValueError") = (inp.kind \notin ValidKinds)
          /\ out.err \in {"none", "ValueError"}
          /\ out.err = "ValueError" => out.groups = {}

\* the (families, types) table and the "which kernel tables" table agree:
\* a kind returns exactly the union of its leaf kinds, for every caller
KindLattice ==
  Done => \A k \in ValidKinds :
            Groups(With(k, inp.who)) = UNION {Groups(With(l, inp.who)) : l \in Leaves[k]}

\* conservation ("every socket once"): system-wide, every stream/dgram socket of
\* the table is demanded by exactly one of the five leaf kinds, a seqpacket
\* socket by none (and is tolerated only by "unix")
EverySocketOnce ==
  Done => \A k \in 1..Len(inp.socks) :
            LET dem == {l \in Leaves["all"] : \E g \in Groups(With(l, 0)) : g.s = k /\ g.need # {{}}}
                tol == {l \in Leaves["all"] : \E g \in Groups(With(l, 0)) : g.s = k}
            IN IF inp.socks[k].type = "seqpacket" THEN dem = {} /\ tol = {"unix"}
               ELSE Cardinality(dem) = 1 /\ tol = dem

\* the per-process form is the projection of the system-wide one on that
\* process's descriptors, and does not depend on what other processes hold
PerProcessIsProjection ==
  (Done /\ inp.kind \in ValidKinds) =>
    \A p \in PIDs \cup {IdlePid} :
      LET sys  == Groups(With(inp.kind, 0))
          mine == Groups(With(inp.kind, p))
          solo == Groups([With(inp.kind, p) EXCEPT !.hold = {h \in inp.hold : h[1] = p}])
      IN /\ mine = solo
         /\ {g.s : g \in mine} = {g.s : g \in {x \in sys : p \in PidsOf(x.owners)}}
         /\ \A g \in mine : \E x \in sys : /\ x.s = g.s /\ x.f = g.f
                                         /\ g.owners = {o \in x.owners : o[1] = p}
         /\ (p = IdlePid => mine = {})

StatusRule ==
  Done => \A g \in out.groups :
            IF g.f.fam # "unix" /\ g.f.type = "stream"
            THEN g.f.status \in TcpStates /\ g.f.status = inp.socks[g.s].st
            ELSE g.f.status = "NONE"

AddrRule ==
  Done => \A g \in out.groups :
            LET s == inp.socks[g.s] IN
            IF s.fam = "unix" THEN g.f.laddr = <<s.path>> /\ g.f.raddr = <<>>
            ELSE /\ (g.f.laddr = <<>>) = (s.l[2] = 0) /\ (g.f.laddr # <<>> => g.f.laddr = s.l)
                 /\ (g.f.raddr = <<>>) = (s.r[2] = 0) /\ (g.f.raddr # <<>> => g.f.raddr = s.r)

OwnerRule ==
  Done => \A g \in out.groups :
            /\ g.owners # {}
            /\ (Nobody \in g.owners) = (Visible(inp, g.s) = {})
            /\ Nobody \in g.owners => g.owners = {Nobody} /\ inp.who = 0
            /\ \A o \in g.owners \ {Nobody} : <<o[1], o[2], g.s>> \in inp.hold /\ (inp.who # 0 => o[1] = inp.who)
            /\ g.f.fam = "unix" /\ g.need # {{}} => g.need = {g.owners}       \* one row per holder
            /\ g.f.fam # "unix" => g.need = {{o} : o \in g.owners}            \* any one holder

\* the acceptance relation is satisfiable and discriminating: a canonical
\* answer conforms; dropping any of its rows, repeating one, adding a row with
\* a foreign owner or answering with the wrong error class does not
Canon(exp) == UNION {{[f |-> g.f, pid |-> o[1], fd |-> o[2], n |-> 1] : o \in (CHOOSE N \in g.need : TRUE)} :
                       g \in exp.groups}
\* the answer that also lists every tolerated row
Full(exp) == UNION {{[f |-> g.f, pid |-> o[1], fd |-> o[2], n |-> 1] :
                       o \in (IF g.need = {{}} THEN g.owners ELSE CHOOSE N \in g.need : TRUE)} :
                    g \in exp.groups}
OracleDiscriminates ==
  Done =>
    LET c == [err |-> out.err, rows |-> Canon(out)] IN
    /\ Conforms(out, c)
    /\ Verdict(inp, c) = {}
    /\ Conforms(out, [c EXCEPT !.rows = Full(out)])
    /\ \A r \in c.rows : ~Conforms(out, [c EXCEPT !.rows = @ \ {r}])
    /\ \A r \in c.rows : Cardinality({g \in out.groups : Bare(r) \in Adm(g)}) = 1
                           => ~Conforms(out, [c EXCEPT !.rows = (@ \ {r}) \cup {[r EXCEPT !.n = 2]}])
    /\ \A r \in c.rows : ~Conforms(out, [c EXCEPT !.rows = @ \cup {[r EXCEPT !.pid = IdlePid, !.fd = 0]}])
    /\ ~Conforms(out, [c EXCEPT !.err = IF out.err = "none" THEN "ValueError" ELSE "none"])

\* a defect shape never explains a conforming answer, and when it applies the
\* defective answer it describes is rejected by the plain relation
ShapesAreDefects ==
  Done => \A a \in Alts(inp) :
            LET c == [err |-> a.out.err, rows |-> Full(a.out)] IN
            /\ Conforms(a.out, c)
            /\ ~Conforms(out, c)
            /\ Verdict(inp, c) # {} /\ Verdict(inp, c) # {{"other"}}

DumpL == PrintT(<<"TR", "-", ToJson(ev'), "-", TLCGet("level")>>)
=============================================================================

--------------------------- MODULE ProcIterDrain ---------------------------
(***************************************************************************)
(* C04, two threads: the start of process_iter() drains the module-level   *)
(* set _pids_reused with                                                   *)
(*     while _pids_reused:            (Check)                              *)
(*         pid = _pids_reused.pop()   (Pop)                                *)
(* Two iterators started by two threads share the set; the test and the    *)
(* pop are separate steps.  `Fixes` = {} is psutil 7.0.0; "C04race" pops   *)
(* tolerantly (an empty set ends the loop).                                *)
(***************************************************************************)
EXTENDS Naturals, FiniteSets, TLC

CONSTANTS Threads, Reused, Fixes     \* Reused: initial content of _pids_reused

VARIABLES pidsReused, pc, evicted, err
vars == <<pidsReused, pc, evicted, err>>

Init == /\ pidsReused = Reused
        /\ pc = [t \in Threads |-> "check"]
        /\ evicted = [t \in Threads |-> {}]
        /\ err = [t \in Threads |-> "none"]

Check(t) == /\ pc[t] = "check"
            /\ pc' = [pc EXCEPT ![t] = IF pidsReused # {} THEN "pop" ELSE "done"]
            /\ UNCHANGED <<pidsReused, evicted, err>>

Pop(t) == /\ pc[t] = "pop"
          /\ IF pidsReused = {}
               THEN /\ IF "C04race" \in Fixes
                         THEN pc' = [pc EXCEPT ![t] = "done"] /\ err' = err
                         ELSE pc' = [pc EXCEPT ![t] = "done"] /\ err' = [err EXCEPT ![t] = "KeyError"]
                    /\ UNCHANGED <<pidsReused, evicted>>
               ELSE \E p \in pidsReused :
                      /\ pidsReused' = pidsReused \ {p}
                      /\ evicted' = [evicted EXCEPT ![t] = @ \cup {p}]
                      /\ pc' = [pc EXCEPT ![t] = "check"] /\ err' = err

Next == \E t \in Threads : Check(t) \/ Pop(t)
Spec == Init /\ [][Next]_vars /\ WF_vars(Next)

\* iterating from two threads never raises
C04_NoError == \A t \in Threads : err[t] = "none"
\* every recycled PID is evicted by exactly one of the iterators
C04_EachOnce == (\A t \in Threads : pc[t] = "done") =>
                   /\ UNION {evicted[t] : t \in Threads} = Reused
                   /\ \A t, u \in Threads : t # u => evicted[t] \cap evicted[u] = {}
C04_Terminates == <>(\A t \in Threads : pc[t] = "done")
=============================================================================

------------------------------ MODULE ProcStat ------------------------------
(***************************************************************************)
(* C06 -- what psutil must report for one process given the abstract       *)
(* content of its /proc/<pid>/stat, /proc/<pid>/status and                 *)
(* /proc/<pid>/task/<tid>/stat records.                                    *)
(*                                                                         *)
(* "Spec as oracle": Init ranges over the abstract input space (every comm *)
(* byte string over a small alphabet, every state letter, the three        *)
(* record layouts, tty numbers, thread sets); the single action Observe    *)
(* publishes the answers the API must give, as exact integers (ticks;      *)
(* the harness divides by CLK_TCK) and byte sequences.  simkernel renders  *)
(* the same abstract record into the kernel's text format and the real     *)
(* methods are compared with `out`.                                        *)
(***************************************************************************)
EXTENDS Naturals, Integers, Sequences, FiniteSets, TLC, Json

CONSTANTS Alphabet,    \* byte values a comm may contain
          MaxLen,      \* comm lengths 0..MaxLen are enumerated ...
          LongLens,    \* ... plus these lengths filled with a repeated pattern (15, 16)
          Letters,     \* state letters (as strings)
          Layouts,     \* number of fields of the stat record: subset of {52, 44, 41}
          Ttys,        \* tty_nr values
          NThreads     \* numbers of threads to enumerate (1..n)

VARIABLES inp, out, ev
vars == <<inp, out, ev>>

\* distinct values in every numeric slot so that a shifted column is visible
PPID == 4           UTIME == 11      STIME == 12      CUTIME == 13     CSTIME == 14
START == 2200       CPU == 3         BLKIO == 42
UIDS == <<1001, 1002, 1003, 1004>>   GIDS == <<2001, 2002, 2003, 2004>>
VOL == 71           NONVOL == 72

Comms(n) == UNION {[1..k -> Alphabet] : k \in 0..n}
Pattern(len) == [i \in 1..len |-> IF i % 3 = 0 THEN 41 ELSE IF i % 3 = 1 THEN 97 ELSE 32]  \* "a )a )..."
\* names that look like a line of the status record or like the tail of the stat
\* record: "Uid:\t7\t8\t9", "Gid:\t7\t8\t9", "Threads:\t99", "PPid:\t1",
\* "State:\tZ (zo)", "x) R 9 8 7 6 5".  The kernel escapes only '\n' and '\\' on the
\* Name: line, so a tab reaches the reader as it is.
Lookalikes == { <<85, 105, 100, 58, 9, 55, 9, 56, 9, 57>>,
                <<71, 105, 100, 58, 9, 55, 9, 56, 9, 57>>,
                <<84, 104, 114, 101, 97, 100, 115, 58, 9, 57, 57>>,
                <<80, 80, 105, 100, 58, 9, 49>>,
                <<83, 116, 97, 116, 101, 58, 9, 90, 32, 40, 122, 111, 41>>,
                <<120, 41, 32, 82, 32, 57, 32, 56, 32, 55, 32, 54, 32, 53>>,
                \* ... nor any other byte a text-processing routine may take for a line break
                \* (CR, form feed, vertical tab, file separator): "x\rUid:\t7\t8\t9" and friends
                <<120, 13, 85, 105, 100, 58, 9, 55, 9, 56, 9, 57>>,
                <<120, 12, 71, 105, 100, 58, 9, 55, 9, 56, 9, 57>>,
                <<120, 11, 84, 104, 114, 101, 97, 100, 115, 58, 9, 57, 57>>,
                <<120, 28, 80, 80, 105, 100, 58, 9, 49>> }
AllComms == Comms(MaxLen) \cup {Pattern(l) : l \in LongLens} \cup Lookalikes

\* the kernel keeps at most 15 bytes of a name (TASK_COMM_LEN - 1)
Trunc(c) == IF Len(c) > 15 THEN SubSeq(c, 1, 15) ELSE c

StatusOf == [R |-> "running", S |-> "sleeping", D |-> "disk-sleep", T |-> "stopped",
             t |-> "tracing-stop", Z |-> "zombie", X |-> "dead", x |-> "dead",
             K |-> "wake-kill", W |-> "waking", I |-> "idle", P |-> "parked"]

\* device numbers: major 4 = tty / ttyS, major 136 = pts (minor = index)
TtyPath(n) == CASE n = 1025 -> "/dev/tty1" [] n = 1088 -> "/dev/ttyS0" [] n = 34816 -> "/dev/pts/0"
                [] n = 34826 -> "/dev/pts/10" [] n = 34939 -> "/dev/pts/123"
                \* minors above 255 keep their high bits in bits 20..31 of the device number
                [] n = 1083436 -> "/dev/pts/300" [] n = 15763711 -> "/dev/pts/4095" [] OTHER -> "None"

\* thread i (1 = main thread) : name and tick counters
TComm(c, i) == IF i = 1 THEN Trunc(c) ELSE <<116, 41, 32, 40>> \o <<48 + i>>   \* "t) (<i>"
TUt(i) == 100 + i
TSt(i) == 200 + i

Pending == [pending |-> TRUE]

Inputs == [comm : AllComms, letter : Letters, nf : Layouts, tty : Ttys, nthr : NThreads]

F(i) == [ name      |-> Trunc(i.comm),
          ppid      |-> PPID,
          status    |-> StatusOf[i.letter],
          cpu_times |-> <<UTIME, STIME, CUTIME, CSTIME, IF i.nf = 41 THEN 0 ELSE BLKIO>>,
          start     |-> START,
          cpu_num   |-> CPU,
          terminal  |-> TtyPath(i.tty),
          num_threads |-> IF i.letter = "Z" THEN 1 ELSE i.nthr,
          ctx       |-> <<VOL, NONVOL>>,
          uids      |-> SubSeq(UIDS, 1, 3),
          gids      |-> SubSeq(GIDS, 1, 3),
          \* (the main thread's own counters are not the process totals: those also hold the time of
          \* threads that have exited)
          threads   |-> IF i.letter = "Z" THEN {<<1, TUt(1), TSt(1)>>}
                        ELSE {<<k, TUt(k), TSt(k)>> : k \in 1..i.nthr} ]

Init == /\ inp \in Inputs
        /\ out = Pending
        /\ ev = [op |-> "init"]

Observe == /\ out = Pending
           /\ out' = F(inp)
           /\ inp' = inp
           /\ ev' = [op |-> "observe", inp |-> inp, out |-> F(inp),
                     tcomms |-> [k \in 1..(IF inp.letter = "Z" THEN 1 ELSE inp.nthr) |-> TComm(inp.comm, k)]]

Next == Observe
Spec == Init /\ [][Next]_vars

(* -------- structural facts about F, checked over the whole input space --- *)
Done == out # Pending

\* every answer except name() is independent of the bytes of the name
IndependentOfName ==
  Done => \A c \in {<<>>, <<41, 32, 40>>} :
            LET o == F([inp EXCEPT !.comm = c]) IN
            /\ o.ppid = out.ppid /\ o.status = out.status /\ o.cpu_times = out.cpu_times
            /\ o.start = out.start /\ o.cpu_num = out.cpu_num /\ o.terminal = out.terminal
            /\ o.ctx = out.ctx /\ o.uids = out.uids /\ o.gids = out.gids
            /\ o.threads = out.threads

NameIsKernelName == Done => (Len(out.name) <= 15 /\ out.name = SubSeq(inp.comm, 1, Len(out.name)))

OneRowPerThread == Done => (inp.letter # "Z" => Cardinality(out.threads) = inp.nthr)

DumpL == PrintT(<<"TR", ToJson(<<inp, out>>), ToJson(ev'), ToJson(<<inp', out'>>), TLCGet("level")>>)
=============================================================================

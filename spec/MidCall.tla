------------------------------- MODULE MidCall -------------------------------
(***************************************************************************)
(* C03 -- one Process query as a sequence of OS accesses while the kernel  *)
(* moves the process alive -> zombie -> gone between (and after) them, and  *)
(* may refuse one access; the error-translation decision trees of          *)
(* psutil/_pslinux.py (wrap_exceptions, _raise_if_zombie / _is_zombie,     *)
(* _readlink(fallback), _raise_if_not_alive with hit_enoent) as            *)
(* implementation steps, including the window between the failing access   *)
(* and each probe.                                                         *)
(*                                                                         *)
(* An access is described by its class:                                    *)
(*   "stat"   /proc/pid/stat-like: readable for a zombie                   *)
(*   "empty"  readable, empty for a zombie (cmdline, smaps): the method    *)
(*            then asks _raise_if_zombie                                   *)
(*   "esrch"  opens, read fails with ESRCH for a zombie (environ, rollup)  *)
(*   "link"   readlink, ENOENT for a zombie (exe, cwd), method has a       *)
(*            fallback value for a live process that withholds it          *)
(*   "dir"    listdir (fd, task): empty for a zombie                       *)
(*   "item"   per-item access inside a listing (fd/N, task/T/stat): a      *)
(*            vanished item is tolerated (hit_enoent) and followed by      *)
(*            _raise_if_not_alive                                          *)
(***************************************************************************)
EXTENDS Naturals, Sequences, FiniteSets, TLC

CONSTANTS Shapes,   \* set of access-class sequences (one per method shape)
          Denials   \* subset of {"EACCES", "EPERM"}

VARIABLES shape,    \* the method's access sequence
          phase,    \* "alive" | "zombie" | "gone"
          k,        \* next access index (1-based)
          deny,     \* index of the access to refuse (0 = none)
          pc,       \* "run" | "xlate" | "probe_exists" | "notalive" | "done"
          pending,  \* raw error being translated: "ENOENT" | "ESRCH" | "EACCES"
          hit,      \* hit_enoent flag
          outcome,  \* "none" | "value" | "NSP" | "ZP" | "AD" | "bare:<errno>"
          sawZombie, denied, goneAt   \* ghosts

vars == <<shape, phase, k, deny, pc, pending, hit, outcome, sawZombie, denied, goneAt>>

Init == /\ shape \in Shapes
        /\ phase = "alive" /\ k = 1
        /\ deny \in 0..Len(shape)
        /\ pc = "run" /\ pending = "-" /\ hit = FALSE /\ outcome = "none"
        /\ sawZombie = FALSE /\ denied = FALSE /\ goneAt = 0

\* the kernel: exit, reap -- at any moment, also between a failure and a probe
KernelStep ==
  /\ pc # "done"
  /\ \/ phase = "alive" /\ phase' = "zombie"
     \/ phase = "zombie" /\ phase' = "gone"
     \/ phase = "alive" /\ phase' = "gone"        \* exit + reap between two accesses
  /\ goneAt' = IF phase' = "gone" THEN k ELSE goneAt
  /\ UNCHANGED <<shape, k, deny, pc, pending, hit, outcome, sawZombie, denied>>

\* result of access class c in the current phase: "ok" | "okempty" | errno
Result(c) ==
  IF phase = "gone" THEN (IF c = "esrch_read" THEN "ESRCH" ELSE "ENOENT")
  ELSE IF phase = "zombie"
    THEN CASE c = "stat" -> "ok" [] c = "empty" -> "okempty" [] c = "esrch" -> "ESRCH"
           [] c = "link" -> "ENOENT" [] c = "dir" -> "okempty" [] c = "item" -> "ENOENT"
           [] OTHER -> "ok"
    ELSE "ok"

Access ==
  /\ pc = "run" /\ k <= Len(shape)
  /\ LET c == shape[k]
         r == IF deny = k THEN "EACCES" ELSE Result(c) IN
     /\ denied' = (denied \/ deny = k)
     /\ sawZombie' = (sawZombie \/ phase = "zombie")
     /\ IF r = "ok"
          THEN /\ k' = k + 1 /\ UNCHANGED <<pc, pending, hit, outcome>>
        ELSE IF r = "okempty"
          THEN \* empty content: the method asks _raise_if_zombie itself
               /\ pc' = "xlate" /\ pending' = "EMPTY" /\ k' = k + 1 /\ UNCHANGED <<hit, outcome>>
        ELSE IF c = "item" /\ r \in {"ENOENT", "ESRCH"}
          THEN /\ hit' = TRUE /\ k' = k + 1 /\ UNCHANGED <<pc, pending, outcome>>
        ELSE /\ pc' = "xlate" /\ pending' = r /\ k' = k + 1 /\ UNCHANGED <<hit, outcome>>
  /\ UNCHANGED <<shape, phase, deny, goneAt>>

\* all accesses done: _raise_if_not_alive() if an item vanished, else a value
Finish ==
  /\ pc = "run" /\ k > Len(shape)
  /\ IF hit THEN pc' = "notalive" /\ outcome' = outcome
            ELSE pc' = "done" /\ outcome' = "value"
  /\ UNCHANGED <<shape, phase, k, deny, pending, hit, sawZombie, denied, goneAt>>

\* os.stat("/proc/pid") -> wrap_exceptions
NotAlive ==
  /\ pc = "notalive"
  /\ IF phase = "gone" THEN pc' = "xlate" /\ pending' = "ENOENT" /\ outcome' = outcome
                       ELSE pc' = "done" /\ outcome' = "value" /\ pending' = pending
  /\ hit' = FALSE
  /\ UNCHANGED <<shape, phase, k, deny, sawZombie, denied, goneAt>>

\* wrap_exceptions / _raise_if_zombie: the probe reads /proc/pid/stat NOW
Translate ==
  /\ pc = "xlate"
  /\ sawZombie' = (sawZombie \/ phase = "zombie")
  /\ IF pending = "EACCES" THEN pc' = "done" /\ outcome' = "AD"
     ELSE IF phase = "zombie" THEN pc' = "done" /\ outcome' = "ZP"
     ELSE IF pending = "EMPTY" THEN pc' = "run" /\ outcome' = outcome    \* `return []`-like
     ELSE IF pending = "ESRCH" THEN pc' = "done" /\ outcome' = "NSP"
     ELSE pc' = "probe_exists" /\ outcome' = outcome                    \* ENOENT: issue 2418 probe
  /\ UNCHANGED <<shape, phase, k, deny, pending, hit, denied, goneAt>>

\* os.path.exists("/proc/pid/stat") -- a separate access, later than the probe above
ProbeExists ==
  /\ pc = "probe_exists"
  /\ pc' = "done"
  /\ outcome' = IF phase = "gone" THEN "NSP" ELSE "bare:ENOENT"
  /\ UNCHANGED <<shape, phase, k, deny, pending, hit, sawZombie, denied, goneAt>>

Next == KernelStep \/ Access \/ Finish \/ NotAlive \/ Translate \/ ProbeExists
Spec == Init /\ [][Next]_vars /\ WF_vars(Access \/ Finish \/ NotAlive \/ Translate \/ ProbeExists)

(* ---------------- properties -------------------------------------------- *)
Done == pc = "done"
\* only psutil errors: never a bare OSError
C03_NoBareError == Done => outcome \in {"value", "NSP", "ZP", "AD"}
\* NoSuchProcess only for a process that is gone; ZombieProcess only if it was
\* seen as a zombie; AccessDenied only if an access was refused
C03_NSPOnlyIfGone == (Done /\ outcome = "NSP") => phase = "gone"
C03_ZPOnlyIfZombie == (Done /\ outcome = "ZP") => sawZombie
C03_ADOnlyIfDenied == (Done /\ outcome = "AD") => denied
C03_Terminates == <>Done
=============================================================================

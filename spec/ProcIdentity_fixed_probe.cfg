CONSTANTS
  Pids = {1, 2}
  Objs = {1, 2}
  MaxInc = 3
  MaxUp = 2
  Boots = {10, 20}
  CLK = 2
  Sigs = {9}
  Setters = {"nice"}
  Fixes = {"C01gone", "C02mono"}
INIT Init
NEXT Next
VIEW view
PROPERTY C01_NoMisdelivery
PROPERTY C01_ReusedRaises
PROPERTY C05_PpidReusedRaises
PROPERTY C02_EqTruth
PROPERTY C02_RunTruth
PROPERTY C02_RunSticky
INVARIANT TypeOK
INVARIANT FlagsSound
INVARIANT KUniqueInc
CHECK_DEADLOCK FALSE

------------------------------ MODULE MemInfo ------------------------------
(***************************************************************************)
(* C08 -- what psutil.virtual_memory() and psutil.swap_memory() must       *)
(* report given the abstract content of /proc/meminfo, /proc/zoneinfo,     *)
(* /proc/vmstat and sysinfo(2).                                            *)
(*                                                                         *)
(* "Spec as oracle": Init ranges over abstract inputs (which optional      *)
(* fields are present and with which magnitudes); the single action        *)
(* Observe publishes the answers the API must give.  A meminfo field is a  *)
(* number of kB or Absent; every answer is an exact number of BYTES        *)
(* (kB x 1024), percent is the exact rational <<num, den>> that the code   *)
(* rounds to one decimal.  The harness multiplies every input by a scale S *)
(* and every expected byte count by the same S (all formulas are           *)
(* positively homogeneous), so TLC only sees small integers.               *)
(***************************************************************************)
EXTENDS Naturals, Integers, Sequences, FiniteSets, TLC, Json

CONSTANTS Families,    \* names of the input families Init enumerates
          Grid         \* value grid of the "grid" families (kB / pages)

VARIABLES inp, out, ev
vars == <<inp, out, ev>>

Absent == -1           \* a field the kernel / container runtime does not present
KB     == 1024
Page   == 4096         \* watermarks and pswpin/pswpout count 4 kB pages

Has(x) == x # Absent
B(x)   == x * KB                         \* a present kB figure in bytes
V(x)   == IF Has(x) THEN B(x) ELSE 0     \* ... or 0 when the field is missing
Min(a, b) == IF a < b THEN a ELSE b
If(c, s)  == IF c THEN s ELSE {}

RECURSIVE SumSeq(_)
SumSeq(s) == IF s = <<>> THEN 0 ELSE Head(s) + SumSeq(Tail(s))

Pending == [pending |-> TRUE]

(* ======================= virtual_memory() =============================== *)
(* input: [k = "vm", total, free (always there), buffers, cached, srecl,   *)
(*   shmem, memshared, active, inactive, inact_d, inact_c, inact_l, slab,   *)
(*   mavail, afile, ifile : kB or Absent ; zone : zoneinfo readable ;       *)
(*   lows : the `low` watermark of every zone, in pages]                    *)

Total(i)   == B(i.total)
Free(i)    == B(i.free)
Buffers(i) == V(i.buffers)
\* page cache plus reclaimable slab
Cached(i)  == IF Has(i.cached) THEN B(i.cached) + V(i.srecl) ELSE 0
Shared(i)  == IF Has(i.shmem) THEN B(i.shmem) ELSE V(i.memshared)
Active(i)  == V(i.active)
InactOld(i) == Has(i.inact_d) /\ Has(i.inact_c) /\ Has(i.inact_l)
Inactive(i) == IF Has(i.inactive) THEN B(i.inactive)
               ELSE IF InactOld(i) THEN B(i.inact_d) + B(i.inact_c) + B(i.inact_l)
               ELSE 0
Slab(i)    == V(i.slab)

UsedRaw(i) == Total(i) - Free(i) - Cached(i) - Buffers(i)
Used(i)    == IF UsedRaw(i) < 0 THEN Total(i) - Free(i) ELSE UsedRaw(i)

\* the documented fallback estimate (kernel commit 34e431b0ae, as `free` does):
\* free + page cache when one of its ingredients is missing, otherwise the
\* watermark formula.  Every byte count is a multiple of 1024, so halves are exact.
FullEstimate(i) == Has(i.afile) /\ Has(i.ifile) /\ Has(i.srecl) /\ i.zone
WmLow(i)     == Page * SumSeq(i.lows)
PageCache(i) == B(i.afile) + B(i.ifile)
Estimate(i)  ==
  IF ~FullEstimate(i) THEN Free(i) + V(i.cached)
  ELSE LET wm == WmLow(i)
           pc == PageCache(i)
           sr == B(i.srecl)
       IN  Free(i) - wm + (pc - Min(pc \div 2, wm)) + (sr - Min(sr \div 2, wm))

KernelAvail(i) == Has(i.mavail) /\ i.mavail # 0      \* absent OR ZERO -> estimate
AvailRaw(i)    == IF KernelAvail(i) THEN B(i.mavail) ELSE Estimate(i)
Avail(i)       == IF AvailRaw(i) < 0 THEN 0
                  ELSE IF AvailRaw(i) > Total(i) THEN Free(i)
                  ELSE AvailRaw(i)

\* metrics that are reported as 0 because their source is missing, and that the
\* RuntimeWarning must name (slab is zeroed silently)
VmWarn(i) ==
       If(~Has(i.buffers), {"buffers"})
  \cup If(~Has(i.cached), {"cached"})
  \cup If(~Has(i.shmem) /\ ~Has(i.memshared), {"shared"})
  \cup If(~Has(i.active), {"active"})
  \cup If(~Has(i.inactive) /\ ~InactOld(i), {"inactive"})
  \cup If(AvailRaw(i) < 0 /\ ~Has(i.mavail), {"available"})
\* MemAvailable shown as 0 is not a missing field: when the estimate that replaces it is
\* negative, available is reported as 0 and the warning may or may not name it
VmMayName(i) == If(AvailRaw(i) < 0 /\ Has(i.mavail), {"available"})

\* which branches of the rules an input exercises (vacuity guard of the harness)
VmClasses(i) ==
       {IF UsedRaw(i) < 0 THEN "used:total-free" ELSE "used:plain"}
  \cup {IF KernelAvail(i) THEN "avail:kernel"
        ELSE IF Has(i.mavail) THEN "avail:zero->estimate" ELSE "avail:absent->estimate"}
  \cup If(~KernelAvail(i), {IF FullEstimate(i) THEN "estimate:watermarks" ELSE "estimate:free+cached"})
  \cup If(~KernelAvail(i) /\ FullEstimate(i),
          {IF PageCache(i) \div 2 < WmLow(i) THEN "estimate:pagecache/2" ELSE "estimate:pagecache-wm",
           IF B(i.srecl) \div 2 < WmLow(i) THEN "estimate:slab/2" ELSE "estimate:slab-wm"})
  \cup {IF AvailRaw(i) < 0 THEN "avail:<0"
        ELSE IF AvailRaw(i) > Total(i) THEN "avail:>total" ELSE "avail:in-range"}
  \cup {IF Total(i) = 0 THEN "percent:total=0"
        ELSE IF Avail(i) = Total(i) THEN "percent:0"
        ELSE IF Avail(i) = 0 THEN "percent:100" ELSE "percent:mid"}
  \cup If(Has(i.cached) /\ Has(i.srecl) /\ i.srecl > 0, {"cached:+sreclaimable"})
  \cup If(~Has(i.shmem) /\ Has(i.memshared), {"shared:memshared"})
  \cup If(~Has(i.inactive) /\ InactOld(i), {"inactive:inact_*"})
  \cup If(~Has(i.slab), {"slab:missing"})
  \cup {"warn:" \o w : w \in VmWarn(i)}
  \cup {"warn-optional:" \o w : w \in VmMayName(i)}
  \cup If(VmWarn(i) = {}, {"warn:none"})

FVm(i) == [ k |-> "vm",
            total |-> Total(i), available |-> Avail(i),
            percent |-> <<100 * (Total(i) - Avail(i)), Total(i)>>,
            used |-> Used(i), free |-> Free(i), active |-> Active(i), inactive |-> Inactive(i),
            buffers |-> Buffers(i), cached |-> Cached(i), shared |-> Shared(i), slab |-> Slab(i),
            warn |-> VmWarn(i), mayname |-> VmMayName(i), cls |-> VmClasses(i) ]

(* ========================= swap_memory() ================================ *)
(* input: [k = "swap", stotal, sfree : kB or Absent (SwapTotal/SwapFree),   *)
(*   sys : <<totalswap, freeswap, mem_unit>> of sysinfo(2),                 *)
(*   vmstat : /proc/vmstat readable, pin, pout : pages or Absent]           *)

SwapFromMeminfo(i) == Has(i.stotal) /\ Has(i.sfree)
STotal(i) == IF SwapFromMeminfo(i) THEN B(i.stotal) ELSE i.sys[1] * i.sys[3]
SFree(i)  == IF SwapFromMeminfo(i) THEN B(i.sfree)  ELSE i.sys[2] * i.sys[3]
Counters(i) == i.vmstat /\ Has(i.pin) /\ Has(i.pout)
SwapWarn(i) == If(~Counters(i), {"sin", "sout"})

SwapClasses(i) ==
       {IF SwapFromMeminfo(i) THEN "swap:meminfo" ELSE "swap:sysinfo"}
  \cup {IF ~i.vmstat THEN "vmstat:absent" ELSE IF Counters(i) THEN "vmstat:counters" ELSE "vmstat:no-counters"}
  \cup {IF STotal(i) = 0 THEN "swap-percent:total=0"
        ELSE IF SFree(i) = 0 THEN "swap-percent:100"
        ELSE IF SFree(i) = STotal(i) THEN "swap-percent:0" ELSE "swap-percent:mid"}

FSwap(i) == [ k |-> "swap",
              total |-> STotal(i), free |-> SFree(i), used |-> STotal(i) - SFree(i),
              percent |-> <<100 * (STotal(i) - SFree(i)), STotal(i)>>,
              sin  |-> IF Counters(i) THEN i.pin * Page ELSE 0,
              sout |-> IF Counters(i) THEN i.pout * Page ELSE 0,
              warn |-> SwapWarn(i), mayname |-> {}, cls |-> SwapClasses(i) ]

F(i) == IF i.k = "vm" THEN FVm(i) ELSE FSwap(i)

(* ========================= input families =============================== *)
Pick(c, v) == IF c THEN v ELSE Absent

\* magnitude patterns: the value each field has WHEN present (distinct figures, so a
\* confused column is visible); lows1 / lows2 are the one- and two-zone watermarks
PNormal == [total |-> 100, free |-> 20, buffers |-> 6, cached |-> 14, srecl |-> 10, shmem |-> 3,
            memshared |-> 5, active |-> 31, inactive |-> 27, inact_d |-> 8, inact_c |-> 9,
            inact_l |-> 11, slab |-> 12, mavail |-> 45, afile |-> 10, ifile |-> 16,
            lows1 |-> <<1>>, lows2 |-> <<1, 3>>]
\* container-distorted: cached + buffers > total
PCacheOver == [PNormal EXCEPT !.total = 30, !.free = 10, !.cached = 25, !.buffers = 9, !.mavail = 12]
\* container-distorted: MemAvailable > total
PAvailOver == [PNormal EXCEPT !.mavail = 145]
\* watermarks far above free memory: the estimate goes negative
PLowFree == [PNormal EXCEPT !.free = 2, !.afile = 1, !.ifile = 1, !.srecl = 1, !.cached = 1,
                            !.lows1 = <<5>>, !.lows2 = <<5, 7>>]
\* everything in use: available = 0, percent = 100 ;  nothing in use: percent = 0
PFull == [PNormal EXCEPT !.free = 0, !.cached = 0, !.afile = 0, !.ifile = 0, !.srecl = 0,
                         !.lows1 = <<0>>, !.lows2 = <<0, 0>>, !.mavail = 0]
PIdle == [PNormal EXCEPT !.free = 100, !.cached = 0, !.afile = 0, !.ifile = 0, !.srecl = 0,
                         !.buffers = 0, !.lows1 = <<0>>, !.lows2 = <<0, 0>>, !.mavail = 100]
\* MemAvailable = total exactly (in range: reported verbatim, percent 0 while free < total)
PAvailEq == [PNormal EXCEPT !.mavail = 100]
\* zero totals: all zero, and a zero total next to non-zero figures
PZero  == [total |-> 0, free |-> 0, buffers |-> 0, cached |-> 0, srecl |-> 0, shmem |-> 0,
           memshared |-> 0, active |-> 0, inactive |-> 0, inact_d |-> 0, inact_c |-> 0,
           inact_l |-> 0, slab |-> 0, mavail |-> 0, afile |-> 0, ifile |-> 0,
           lows1 |-> <<0>>, lows2 |-> <<0, 0>>]
PZeroTotal == [PNormal EXCEPT !.total = 0, !.free = 0]

\* Each family is a predicate that binds `inp` (TLC streams the initial states out of
\* the nested quantifiers instead of building the set of records).
VmSubsets(Pats, Shareds, Inacts, Files, Zones) ==
  \E p \in Pats, b \in BOOLEAN, c \in BOOLEAN, s \in BOOLEAN, sh \in Shareds, a \in BOOLEAN,
     ia \in Inacts, sl \in BOOLEAN, ma \in {"absent", "zero", "value"}, f \in Files, z \in Zones :
   inp = [ k |-> "vm", total |-> p.total, free |-> p.free,
      buffers |-> Pick(b, p.buffers), cached |-> Pick(c, p.cached), srecl |-> Pick(s, p.srecl),
      shmem |-> Pick(sh \in {"shmem", "both"}, p.shmem),
      memshared |-> Pick(sh \in {"memshared", "both"}, p.memshared),
      active |-> Pick(a, p.active),
      inactive |-> Pick(ia \in {"new", "both"}, p.inactive),
      inact_d |-> Pick(ia \in {"old", "both", "partial"}, p.inact_d),
      inact_c |-> Pick(ia \in {"old", "both", "partial"}, p.inact_c),
      inact_l |-> Pick(ia \in {"old", "both"}, p.inact_l),
      slab |-> Pick(sl, p.slab),
      mavail |-> IF ma = "absent" THEN Absent ELSE IF ma = "zero" THEN 0 ELSE p.mavail,
      afile |-> Pick(f \in {"both", "afile"}, p.afile),
      ifile |-> Pick(f \in {"both", "ifile"}, p.ifile),
      zone |-> z # "absent",
      lows |-> IF z = "two" THEN p.lows2 ELSE IF z = "one" THEN p.lows1 ELSE <<>> ]

\* everything present, as a 6.x kernel shows it
VmAll(p) == [ k |-> "vm", total |-> p.total, free |-> p.free, buffers |-> p.buffers,
              cached |-> p.cached, srecl |-> p.srecl, shmem |-> p.shmem, memshared |-> Absent,
              active |-> p.active, inactive |-> p.inactive, inact_d |-> Absent, inact_c |-> Absent,
              inact_l |-> Absent, slab |-> p.slab, mavail |-> p.mavail, afile |-> p.afile,
              ifile |-> p.ifile, zone |-> TRUE, lows |-> p.lows1 ]

GridA == Grid \cup {Absent}

\* used / cached / simple estimate over the value grid
VmGridUsed ==
  \E t \in Grid, f \in Grid, b \in GridA, c \in GridA, s \in GridA, ma \in {Absent, 3} :
    inp = [VmAll(PNormal) EXCEPT !.total = t, !.free = f, !.buffers = b, !.cached = c, !.srecl = s,
                                 !.mavail = ma, !.zone = FALSE, !.lows = <<>>]

\* kernel-provided MemAvailable against total and free
VmGridKernel ==
  \E t \in Grid, f \in Grid, ma \in Grid, c \in {Absent, 2} :
    inp = [VmAll(PNormal) EXCEPT !.total = t, !.free = f, !.mavail = ma, !.cached = c,
                                 !.buffers = 1, !.srecl = 1]

\* the watermark estimate over the value grid
GridZones == {<<FALSE, <<>> >>, <<TRUE, <<>> >>, <<TRUE, <<0>> >>, <<TRUE, <<1>> >>, <<TRUE, <<1, 1>> >>}
VmGridEstimate ==
  \E t \in Grid, f \in Grid, ma \in {Absent, 0}, c \in {Absent, 0, 2, 5}, af \in GridA,
     ifl \in {0, 2, 5}, s \in {Absent, 0, 1, 3}, z \in GridZones :
    inp = [VmAll(PNormal) EXCEPT !.total = t, !.free = f, !.mavail = ma, !.cached = c, !.buffers = 0,
                                 !.afile = af, !.ifile = ifl, !.srecl = s, !.zone = z[1], !.lows = z[2]]

Sw(st, sf, sy, v) == [k |-> "swap", stotal |-> st, sfree |-> sf, sys |-> sy,
                      vmstat |-> v[1], pin |-> v[2], pout |-> v[3]]
\* sysinfo(2) figures that differ from meminfo's (a container shows its own meminfo)
SysOther == {<<70, 30, 1>>, <<9, 4, 4096>>, <<0, 0, 1>>}
VmstatForms == {<<FALSE, Absent, Absent>>, <<TRUE, Absent, Absent>>, <<TRUE, 3, 7>>, <<TRUE, 0, 0>>}
\* when only one of SwapTotal/SwapFree is shown, sysinfo agrees with the one shown
\* (the other one: total 32 kB, free 2 kB)
SysAgree(st, sf, u) == <<IF Has(st) THEN B(st) \div u ELSE 32 * (KB \div u),
                         IF Has(sf) THEN B(sf) \div u ELSE 2 * (KB \div u),
                         u>>
SwapInputs(G) ==
  \E v \in VmstatForms :
    \/ \E st \in G, sf \in G, sy \in SysOther : inp = Sw(st, sf, sy, v)
    \/ \E sy \in SysOther \cup {<<5, 5, 4096>>, <<5, 0, 1>>} : inp = Sw(Absent, Absent, sy, v)
    \/ \E st \in G \ {0}, u \in {1, 1024} : inp = Sw(st, Absent, SysAgree(st, Absent, u), v)
    \/ \E sf \in G, u \in {1, 1024} : inp = Sw(Absent, sf, SysAgree(Absent, sf, u), v)

QuickPats == {PNormal, PCacheOver, PAvailOver, PAvailEq, PLowFree, PZero, PZeroTotal, PFull, PIdle}

Family(n) ==
  CASE n = "vm-subsets"      -> VmSubsets(QuickPats, {"shmem", "memshared", "none"}, {"new", "old", "none"},
                                          {"both", "none"}, {"absent", "one", "two"})
    \* the rarer presence forms (both names of one metric, incomplete groups) on two patterns
    [] n = "vm-subsets-rare" -> VmSubsets({PNormal, PLowFree}, {"both", "none"}, {"both", "partial"},
                                          {"afile", "ifile"}, {"none", "two"})
    [] n = "vm-subsets-full" -> VmSubsets(QuickPats, {"shmem", "memshared", "both", "none"},
                                          {"new", "old", "both", "partial", "none"},
                                          {"both", "afile", "ifile", "none"}, {"absent", "none", "one", "two"})
    [] n = "vm-grid-used"     -> VmGridUsed
    [] n = "vm-grid-kernel"   -> VmGridKernel
    [] n = "vm-grid-estimate" -> VmGridEstimate
    [] n = "swap"             -> SwapInputs({0, 2, 5})
    [] n = "swap-grid"        -> SwapInputs(Grid)

\* the statement conditions its range claims on free <= total; such worlds are the binding ones
Binding(i) == IF i.k = "vm" THEN i.free <= i.total ELSE SFree(i) <= STotal(i)

Init == /\ \E n \in Families : Family(n)
        /\ Binding(inp)
        /\ out = Pending
        /\ ev = [op |-> "init"]

Observe == /\ out = Pending
           /\ out' = F(inp)
           /\ inp' = inp
           /\ ev' = [op |-> "observe", inp |-> inp, out |-> F(inp)]

Next == Observe
Spec == Init /\ [][Next]_vars

(* -------- structural facts about F, checked over the whole input space --- *)
Done == out # Pending
IsVm == Done /\ inp.k = "vm"
IsSwap == Done /\ inp.k = "swap"

PercentInRange(o) == o.percent[1] >= 0 /\ o.percent[1] <= 100 * o.percent[2]

\* 0 <= available <= total and 0 <= percent <= 100 whenever free <= total
AvailableInRange == IsVm /\ inp.free <= inp.total => out.available >= 0 /\ out.available <= out.total
VmPercentInRange == IsVm /\ inp.free <= inp.total => PercentInRange(out)
\* used is total-free-cached-buffers, or total-free; never negative, never above total
UsedInRange == IsVm /\ inp.free <= inp.total =>
                 /\ out.used >= 0 /\ out.used <= out.total
                 /\ \/ out.used + out.free + out.cached + out.buffers = out.total
                    \/ out.used + out.free = out.total /\ out.cached + out.buffers > out.total - out.free
\* a metric is named by the warning exactly when it is reported as 0 for want of a source
WarnedAreZero == IsVm => \A m \in out.warn \cup out.mayname :
                   CASE m = "buffers" -> out.buffers = 0 [] m = "cached" -> out.cached = 0
                     [] m = "shared" -> out.shared = 0 [] m = "active" -> out.active = 0
                     [] m = "inactive" -> out.inactive = 0 [] m = "available" -> out.available = 0
WarnNeverSlab == IsVm => "slab" \notin out.warn
\* with every optional field present (new-style names) nothing is warned about
CompleteMeansSilent ==
  IsVm /\ Has(inp.buffers) /\ Has(inp.cached) /\ Has(inp.shmem) /\ Has(inp.active) /\ Has(inp.inactive)
       /\ KernelAvail(inp) => out.warn = {}
\* the figures that are plain copies do not depend on the fields of the formulas, and
\* used / available / percent do not depend on the plain copies
Independence ==
  IsVm => LET o == F([inp EXCEPT !.shmem = Absent, !.memshared = Absent, !.active = Absent,
                                  !.inactive = Absent, !.inact_d = Absent, !.slab = Absent])
              q == F([inp EXCEPT !.buffers = Absent, !.cached = Absent, !.srecl = Absent,
                                  !.mavail = Absent, !.zone = FALSE])
          IN /\ o.used = out.used /\ o.available = out.available /\ o.percent = out.percent
             /\ o.cached = out.cached /\ o.buffers = out.buffers
             /\ q.shared = out.shared /\ q.active = out.active /\ q.inactive = out.inactive
             /\ q.slab = out.slab /\ q.total = out.total /\ q.free = out.free
\* a kernel that provides a sane MemAvailable is reported verbatim
KernelEstimateVerbatim ==
  IsVm /\ KernelAvail(inp) /\ inp.mavail <= inp.total => out.available = B(inp.mavail)

SwapConservation == IsSwap => out.used + out.free = out.total
SwapPercentInRange == IsSwap /\ out.free <= out.total => PercentInRange(out) /\ out.used >= 0
SwapWarnBoth == IsSwap => (out.warn = {} /\ Counters(inp)) \/ (out.warn = {"sin", "sout"} /\ out.sin = 0 /\ out.sout = 0)

\* s / t carry nothing: the observation is the event
DumpL == PrintT(<<"TR", ToJson(0), ToJson(ev'), ToJson(0), TLCGet("level")>>)
=============================================================================

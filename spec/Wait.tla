-------------------------------- MODULE Wait --------------------------------
(***************************************************************************)
(* C15 -- Process.wait(timeout) over psutil._psposix.wait_pid(): the       *)
(* WNOHANG polling loop with exponential back-off in virtual time.         *)
(*                                                                         *)
(* Time is counted in half-units of 0.05 ms (the first sleep is 2, the cap *)
(* 800 = 40 ms).  Time advances only inside sleep().  The process exits at *)
(* a fixed instant chosen by Init; exits and deadlines sit on odd instants *)
(* so that no comparison of the real (floating point) code is decided by a *)
(* rounding tie -- except timeout = 0, where the code compares a clock     *)
(* reading with itself.                                                    *)
(*                                                                         *)
(* One behaviour = one call, as a sequence of OS-visible steps:            *)
(*   Poll (waitpid / pid_exists) -> [Return | DeadlineCheck -> Sleep]*     *)
(* followed by a second call that must be answered from the cache.         *)
(***************************************************************************)
EXTENDS Naturals, Integers, Sequences, TLC, Json

CONSTANTS Kinds,      \* subset of {"child", "nonchild", "never"}
          Exits,      \* exit instants: odd naturals; 0 = gone/zombie before the call; 9999 = never exits
          Timeouts,   \* 0, odd naturals, 9999 = None, 9998 = negative (invalid)
          Statuses,   \* subset of {"exit0", "exit7", "sigkill", "sigterm", "sigrt35", "sigsegvcore"}
          Cap,        \* 800
          MaxT        \* horizon: behaviours whose clock passes it are cut (state constraint)

None == 9999
Neg == 9998
Never == 9999

VARIABLES cfg,       \* [kind, exitAt, timeout, status]
          now,       \* virtual clock
          pc,        \* "start" | "poll" | "check" | "ret" | "again" | "done"
          interval,  \* next sleep argument
          sleeps,    \* sequence of sleep arguments so far
          polls,     \* number of waitpid / pid_exists calls so far
          lastPollAlive, \* the last poll saw the process alive, at instant lastPollAt
          lastPollAt,
          res,       \* outcome of the call
          ev

vars == <<cfg, now, pc, interval, sleeps, polls, lastPollAlive, lastPollAt, res, ev>>

HasTO == cfg.timeout # None
Ended == cfg.kind = "never" \/ (cfg.exitAt # Never /\ cfg.exitAt <= now)

\* (sigrt35: a real-time signal, which has no member in Python's signal enum)
\* (sigsegvcore: killed by SIGSEGV with a core file written -- the status word carries the flag 0x80)
Code == [exit0 |-> 0, exit7 |-> 7, sigkill |-> -9, sigterm |-> -15, sigrt35 |-> -35, sigsegvcore |-> -11]

Init == /\ cfg \in [kind : Kinds, exitAt : Exits, timeout : Timeouts, status : Statuses]
        /\ (cfg.kind = "never" => cfg.exitAt = 0 /\ cfg.status = "exit0")
        /\ (cfg.kind = "nonchild" => cfg.status = "exit0")
        /\ (cfg.timeout = None => cfg.exitAt # Never)      \* otherwise the call never returns
        /\ now = 0 /\ pc = "start" /\ interval = 2 /\ sleeps = <<>> /\ polls = 0
        /\ lastPollAlive = FALSE /\ lastPollAt = -1
        /\ res = [kind |-> "none"]
        /\ ev = [op |-> "init"]

\* Process.wait(): argument validation before any system call
Start ==
  /\ pc = "start"
  /\ IF cfg.timeout = Neg
       THEN /\ pc' = "done" /\ res' = [kind |-> "ValueError"]
            /\ ev' = [op |-> "return", res |-> res', at |-> now, sleeps |-> sleeps, polls |-> polls, cfg |-> cfg]
       ELSE /\ pc' = "poll" /\ res' = res
            /\ ev' = [op |-> "start"]
  /\ UNCHANGED <<cfg, now, interval, sleeps, polls, lastPollAlive, lastPollAt>>

\* one waitpid(pid, WNOHANG|0) (child) or pid_exists(pid) (non-child) call
Poll ==
  /\ pc = "poll"
  /\ polls' = polls + 1
  /\ IF cfg.kind = "child" /\ ~HasTO /\ cfg.exitAt # Never /\ ~Ended
       THEN \* blocking waitpid: the kernel wakes the caller at the exit instant
            /\ now' = cfg.exitAt
            /\ pc' = "ret" /\ res' = [kind |-> "value", code |-> Code[cfg.status]]
            /\ lastPollAlive' = FALSE /\ lastPollAt' = cfg.exitAt
            /\ ev' = [op |-> "poll", alive |-> FALSE, at |-> cfg.exitAt]
     ELSE IF Ended
       THEN /\ pc' = "ret"
            /\ res' = IF cfg.kind = "child" THEN [kind |-> "value", code |-> Code[cfg.status]]
                      ELSE [kind |-> "none"]
            /\ lastPollAlive' = FALSE /\ lastPollAt' = now
            /\ ev' = [op |-> "poll", alive |-> FALSE, at |-> now]
            /\ now' = now
       ELSE /\ cfg.exitAt # Never \/ HasTO    \* (a wait without timeout on an immortal process never returns)
            /\ pc' = "check" /\ res' = res
            /\ lastPollAlive' = TRUE /\ lastPollAt' = now
            /\ ev' = [op |-> "poll", alive |-> TRUE, at |-> now]
            /\ now' = now
  /\ UNCHANGED <<cfg, interval, sleeps>>

\* sleep(): deadline check first, then the actual sleep and the back-off
CheckAndSleep ==
  /\ pc = "check"
  /\ IF HasTO /\ now >= cfg.timeout
       THEN /\ pc' = "done" /\ res' = [kind |-> "TimeoutExpired", seconds |-> cfg.timeout]
            /\ ev' = [op |-> "return", res |-> res', at |-> now, sleeps |-> sleeps, polls |-> polls, cfg |-> cfg]
            /\ UNCHANGED <<now, interval, sleeps>>
       ELSE /\ now' = now + interval
            /\ sleeps' = Append(sleeps, interval)
            /\ interval' = IF interval * 2 < Cap THEN interval * 2 ELSE Cap
            /\ pc' = "poll" /\ res' = res
            /\ ev' = [op |-> "sleep", arg |-> interval, at |-> now]
  /\ UNCHANGED <<cfg, polls, lastPollAlive, lastPollAt>>

Return ==
  /\ pc = "ret"
  /\ pc' = "again"
  /\ ev' = [op |-> "return", res |-> res, at |-> now, sleeps |-> sleeps, polls |-> polls, cfg |-> cfg]
  /\ UNCHANGED <<cfg, now, interval, sleeps, polls, lastPollAlive, lastPollAt, res>>

\* a later wait() on the same object: cached value, no system call
Again ==
  /\ pc = "again"
  /\ pc' = "done"
  /\ ev' = [op |-> "again", res |-> res, polls |-> polls, sleeps |-> sleeps, cfg |-> cfg]
  /\ UNCHANGED <<cfg, now, interval, sleeps, polls, lastPollAlive, lastPollAt, res>>

Next == Start \/ Poll \/ CheckAndSleep \/ Return \/ Again
Spec == Init /\ [][Next]_vars /\ WF_vars(Next)

Horizon == now <= MaxT

(* ---------------- properties -------------------------------------------- *)
IsRet == ev.op = "return"

\* never before the process has really ended; right status
NeverEarly ==
  (IsRet /\ ev.res.kind \in {"value", "none"}) =>
     /\ Ended
     /\ (cfg.kind = "child" => ev.res = [kind |-> "value", code |-> Code[cfg.status]])
     /\ (cfg.kind # "child" => ev.res.kind = "none")

\* TimeoutExpired only if the deadline passed with the process still alive,
\* at most one 40 ms poll late, carrying the timeout
TimeoutHonoured ==
  (IsRet /\ ev.res.kind = "TimeoutExpired") =>
     /\ HasTO /\ cfg.timeout # Neg
     /\ now >= cfg.timeout
     /\ lastPollAlive /\ lastPollAt = now /\ ~Ended
     /\ now <= cfg.timeout + Cap
     /\ ev.res.seconds = cfg.timeout

\* polls start at 0.1 ms, double, never exceed 40 ms
Backoff(s) == \A i \in 1..Len(s) :
                 s[i] = IF i = 1 THEN 2 ELSE IF s[i-1] * 2 < Cap THEN s[i-1] * 2 ELSE Cap
BackoffShape == Backoff(sleeps)

ZeroNeverSleeps == (cfg.timeout = 0) => sleeps = <<>>

NegativeRejected == (cfg.timeout = Neg /\ pc # "start") => (res.kind = "ValueError" /\ polls = 0 /\ sleeps = <<>>)

NeverExistedAtOnce == (IsRet /\ cfg.kind = "never" /\ cfg.timeout # Neg) => (ev.res.kind = "none" /\ sleeps = <<>>)

\* returns as soon as a poll finds the process ended: never more than one
\* sleep after the exit instant
Prompt == (IsRet /\ ev.res.kind \in {"value", "none"} /\ cfg.exitAt # Never /\ cfg.kind # "never"
           /\ cfg.timeout # Neg) =>
            (now = 0 \/ now - cfg.exitAt <= Cap)

\* cached on later calls: same value, no further system call
Cached == [][ev'.op = "again" => (ev'.res = res /\ polls' = polls /\ sleeps' = sleeps)]_vars

\* the call comes back whenever the process ends or a timeout is given
Terminates == <>(pc = "done" \/ now > MaxT)

DumpL == PrintT(<<"TR", ToJson(<<cfg, now, pc>>), ToJson(ev'), ToJson(<<cfg', now', pc'>>), TLCGet("level")>>)
=============================================================================

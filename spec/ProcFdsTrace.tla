--------------------------- MODULE ProcFdsTrace ---------------------------
(***************************************************************************)
(* Trace validation for C14 (code -> spec).  A driver builds random larger *)
(* descriptor tables (up to 14 descriptors of every kind, nine flags,      *)
(* offsets up to 2^63-1, several closing descriptors) and io files, asks   *)
(* the real code and logs one line <input, answers> per world; a second    *)
(* driver records what the real code says about a real child process on    *)
(* the live kernel.  TLC evaluates the specification's F on every logged   *)
(* input and decides with ProcFds!Accept.                                  *)
(*                                                                         *)
(* Offsets and io counters are 64-bit: they travel as decimal strings      *)
(* (F only copies them).  JSON has no sets: `fl` arrives as a sequence.    *)
(***************************************************************************)
EXTENDS ProcFds, IOUtils

Traces == ndJsonDeserialize(IOEnv.TRACE_FILE)

VARIABLE idx
tvars == <<idx, inp, out, ev>>

ToDesc(d) == [d EXCEPT !.fl = RangeOf(@)]
ToInp(i) == [tab |-> [k \in DOMAIN i.tab |-> ToDesc(i.tab[k])], io |-> i.io]

TInit == /\ idx \in 1..Len(Traces)
         /\ inp = ToInp(Traces[idx].inp)
         /\ out = Pending
         /\ ev = [op |-> "init"]
TNext == Observe /\ UNCHANGED idx

\* the logged inputs are descriptor tables the kernel can present
TWellFormed == /\ WellFormed
               /\ \A k \in DOMAIN inp.tab :
                    LET d == inp.tab[k]
                    IN d.kind \in Kinds /\ d.acc \in 0..3 /\ d.fl \subseteq FlagsAll
                       /\ d.del \in Dels /\ d.close \in Closes

\* Every record is judged: a rejected record is printed (with the answers F
\* demands, so that the driver can name the difference) and the run goes on.
Match == (out # Pending) =>
           \/ Accept(out, Traces[idx].got)
           \/ PrintT(<<"REJECTED", idx, ToJson(out)>>)
=============================================================================

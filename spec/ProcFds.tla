------------------------------ MODULE ProcFds ------------------------------
(***************************************************************************)
(* C14 -- what open_files(), num_fds() and io_counters() must report for   *)
(* one live process, given its descriptor table and the content of its     *)
(* /proc/<pid>/io.                                                         *)
(*                                                                         *)
(* "Spec as oracle": Init ranges over the abstract input space             *)
(*   - every single regular-file descriptor (access mode 0..3 x every      *)
(*     subset of {APPEND, CREAT, TRUNC, CLOEXEC, LARGEFILE} x offsets x    *)
(*     the five ' (deleted)' situations x the race points at which the     *)
(*     descriptor may close during the scan), every other kind of          *)
(*     descriptor,                                                         *)
(*   - every table of 0..LenA (LenB) descriptors drawn from a palette of   *)
(*     archetypes,                                                         *)
(*   - every /proc/<pid>/io content with up to IoJunk blank / malformed    *)
(*     extra lines at every position,                                      *)
(* and the single action Observe publishes the answers the API must give.  *)
(* simkernel renders the same abstract table into /proc/<pid>/fd links and *)
(* /proc/<pid>/fdinfo records and the real methods are compared with out.  *)
(*                                                                         *)
(* A descriptor is a record                                                *)
(*   fd    its number                                                      *)
(*   kind  reg | socket | pipe | anon | dev | dir | rel                    *)
(*         (reg, dev, dir have an absolute link target, the others not:    *)
(*          "socket:[n]", "pipe:[n]", "anon_inode:[eventpoll]",            *)
(*          "(unreachable)/x/f")                                           *)
(*   acc   access mode 0 (O_RDONLY) 1 (O_WRONLY) 2 (O_RDWR) 3              *)
(*   fl    the flags given to open(2) besides the access mode              *)
(*   pos   file offset (opaque: copied, never computed with)               *)
(*   file  which file the target names                                     *)
(*   del   no      target is the plain path of an existing regular file    *)
(*         stale   target carries ' (deleted)', no file of that literal    *)
(*                 name exists, a regular file exists at the stripped path *)
(*         literal a regular file whose name really ends in ' (deleted)'   *)
(*         both    as literal, and a file also exists at the stripped path *)
(*         gone    target carries ' (deleted)' and nothing exists at       *)
(*                 either path: the file has no absolute path any more     *)
(*   close no, or cj: the descriptor is closed by its owner right before   *)
(*         the j-th access (j = 1, 2, 3) that the scan makes to this       *)
(*         descriptor's /proc/<pid>/fd/<n> or /proc/<pid>/fdinfo/<n> entry *)
(*         after having listed the directory                               *)
(***************************************************************************)
EXTENDS Naturals, Integers, Sequences, FiniteSets, TLC, Json

CONSTANTS O_APPEND, O_CREAT, O_TRUNC, O_CLOEXEC, O_LARGEFILE,   \* the platform's bit values (from
          O_NONBLOCK, O_DSYNC, O_NOATIME, O_DIRECT,             \* the host's <fcntl.h>, via Python's os)
          Positions,    \* symbolic offsets enumerated for single descriptors
          PalA, LenA,   \* tables of 0..LenA descriptors over archetypes PalA
          PalB, LenB,   \* tables of 0..LenB descriptors over archetypes PalB
          FullSingles,  \* TRUE: full product for single regular descriptors
          IoJunk        \* 0..IoJunk extra lines in /proc/<pid>/io

VARIABLES inp, out, ev
vars == <<inp, out, ev>>

\* descriptor numbers given to table slots 1, 2, ... (one to four digits, not contiguous)
FdNums == <<0, 3, 10, 255, 1023, 4096, 7, 65535>>

Kinds    == {"reg", "socket", "pipe", "anon", "dev", "dir", "rel"}
Dels     == {"no", "stale", "literal", "both", "gone"}
Closes   == {"no", "c1", "c2", "c3"}
Flags5   == {"APPEND", "CREAT", "TRUNC", "CLOEXEC", "LARGEFILE"}
FlagsAll == Flags5 \cup {"NONBLOCK", "DSYNC", "NOATIME", "DIRECT"}
Modes    == {"r", "w", "a", "r+", "a+"}

Bit(f) == CASE f = "APPEND" -> O_APPEND  [] f = "CREAT" -> O_CREAT [] f = "TRUNC" -> O_TRUNC
            [] f = "CLOEXEC" -> O_CLOEXEC [] f = "LARGEFILE" -> O_LARGEFILE
            [] f = "NONBLOCK" -> O_NONBLOCK [] f = "DSYNC" -> O_DSYNC
            [] f = "NOATIME" -> O_NOATIME [] f = "DIRECT" -> O_DIRECT

\* the bits are distinct single bits above the two access-mode bits
IsPow2(n) == \E k \in 2..30 : n = 2 ^ k
ASSUME \A f \in FlagsAll : IsPow2(Bit(f))
ASSUME \A f, g \in FlagsAll : f # g => Bit(f) # Bit(g)

(* ---------------- the kernel side: what the process's descriptor shows --- *)

\* open(2) does not keep the creation flags in the open file description
\* (fs/open.c: f_flags &= ~(O_CREAT | O_EXCL | O_NOCTTY | O_TRUNC)); fdinfo
\* shows the remaining status flags plus the descriptor's close-on-exec bit
Kept(fl) == fl \ {"CREAT", "TRUNC"}

Word(acc, fl) == LET B(f) == IF f \in fl THEN Bit(f) ELSE 0
                 IN acc + B("APPEND") + B("CREAT") + B("TRUNC") + B("CLOEXEC") + B("LARGEFILE")
                        + B("NONBLOCK") + B("DSYNC") + B("NOATIME") + B("DIRECT")

KWord(d) == Word(d.acc, Kept(d.fl))      \* the number printed (in octal) in fdinfo

(* ---------------- the API side ------------------------------------------- *)

\* the mode string the flags imply.  Access mode 3 ("no read, no write": valid
\* on Linux) has none of the five documented strings: any string is accepted.
ModeOf(acc, app) == CASE acc = 0 -> "r"
                      [] acc = 1 -> IF app THEN "a" ELSE "w"
                      [] acc = 2 -> IF app THEN "a+" ELSE "r+"
                      [] acc = 3 -> "any"

\* the same, read off the number alone
ModeOfWord(w) == ModeOf(w % 4, (w \div O_APPEND) % 2 = 1)

Row(d) == [fd |-> d.fd, file |-> d.file, del |-> d.del,
           sfx |-> d.del \in {"literal", "both"},      \* reported path carries ' (deleted)'
           pos |-> d.pos,
           mode |-> ModeOf(d.acc, "APPEND" \in d.fl),
           flags |-> KWord(d)]

\* must be listed: a regular file with an absolute path, still open when inspected
Must(d) == d.kind = "reg" /\ d.close = "no" /\ d.del # "gone"
\* may be listed (under either spelling) or left out: the file has no path any more
May(d)  == d.kind = "reg" /\ d.close = "no" /\ d.del = "gone"
\* closes during the scan: left out, and the call still succeeds
Closing(d) == d.close # "no"

IsKV(l) == l.t = "kv"
IoVal(lines, name) == lines[CHOOSE j \in DOMAIN lines : IsKV(lines[j]) /\ lines[j].k = name].v
Fio(lines) == [read_count  |-> IoVal(lines, "syscr"),      write_count |-> IoVal(lines, "syscw"),
               read_bytes  |-> IoVal(lines, "read_bytes"), write_bytes |-> IoVal(lines, "write_bytes"),
               read_chars  |-> IoVal(lines, "rchar"),      write_chars |-> IoVal(lines, "wchar")]

Sel(tab, P(_)) == {k \in DOMAIN tab : P(tab[k])}

F(i) == [ ok      |-> TRUE,                  \* none of the three calls fails (live process)
          num_fds |-> Len(i.tab),
          rows    |-> {Row(i.tab[k]) : k \in Sel(i.tab, Must)},
          opt     |-> {Row(i.tab[k]) : k \in Sel(i.tab, May)},
          \* for the binding: the row a closing descriptor has if the scan never reaches
          \* the access before which it was to close (then it did not close during the scan)
          ifopen  |-> {Row(i.tab[k]) : k \in {k \in DOMAIN i.tab : i.tab[k].kind = "reg" /\ Closing(i.tab[k])}},
          io      |-> Fio(i.io) ]

(* acceptance of an answer g = [num_fds, rows (a sequence), io] against o = F(i) *)
Norm(r) == IF r.flags % 4 = 3 THEN [r EXCEPT !.mode = "any"] ELSE r
RangeOf(s) == {s[k] : k \in DOMAIN s}
Accept(o, g) ==
  LET G == {Norm(r) : r \in RangeOf(g.rows)}
      OptOK == {[r EXCEPT !.sfx = b] : r \in o.opt, b \in BOOLEAN}
  IN /\ g.num_fds = o.num_fds
     /\ o.rows \subseteq G
     /\ G \subseteq o.rows \cup OptOK
     /\ Cardinality({r.fd : r \in G}) = Len(g.rows)       \* one row per descriptor
     /\ g.io = o.io

(* ---------------- the enumerated input space ----------------------------- *)

D(n, k, a, f, p, fi, dl, c) ==
  [fd |-> n, kind |-> k, acc |-> a, fl |-> f, pos |-> p, file |-> fi, del |-> dl, close |-> c]

\* b"", b"  \t", b"garbage", b"key:5", and malformed lines that contain fragments looking like a
\* record: b"(cgroup) read_bytes: 0 write_bytes: 0", b"# rchar: 0", b"prev/syscw: 9"
JunkKinds == {"blank", "spaces", "nocolon", "nospace", "twopairs", "hashname", "slashname"}
IoNames == <<"rchar", "wchar", "syscr", "syscw", "read_bytes", "write_bytes", "cancelled_write_bytes">>
K7 == [j \in 1..7 |-> [t |-> "kv", k |-> IoNames[j], v |-> 100 + j]]
K6 == SubSeq(K7, 1, 6)
InsertAt(s, p, x) == SubSeq(s, 1, p) \o <<x>> \o SubSeq(s, p + 1, Len(s))
Junked(S) == UNION {{InsertAt(s, p, [t |-> j]) : p \in 0..Len(s), j \in JunkKinds} : s \in S}
RECURSIVE IoUpTo(_)
IoUpTo(n) == IF n = 0 THEN {K7, K6} ELSE IoUpTo(n - 1) \cup Junked(IoUpTo(n - 1))

RepFlags == {<<0, {"LARGEFILE"}>>, <<1, {"APPEND", "CREAT", "LARGEFILE"}>>, <<2, {"CLOEXEC"}>>}

\* (written as predicates over the chosen input so that TLC enumerates them by
\* nested quantification instead of building and de-duplicating huge unions)
IsSingleReg(i) ==
  \/ \E a \in 0..3, f \in SUBSET Flags5, p \in Positions :
        \E dl \in (IF FullSingles THEN Dels ELSE {"no"}), c \in (IF FullSingles THEN Closes ELSE {"no"}) :
          i = [tab |-> <<D(FdNums[1], "reg", a, f, p, 1, dl, c)>>, io |-> K7]
  \/ /\ ~FullSingles
     /\ \E af \in RepFlags, p \in Positions, dl \in Dels, c \in Closes :
          i = [tab |-> <<D(FdNums[1], "reg", af[1], af[2], p, 1, dl, c)>>, io |-> K7]
IsSingleOther(i) ==
  \E k \in Kinds \ {"reg"}, a \in 0..2, f \in {{}, {"CLOEXEC", "APPEND"}}, c \in Closes :
     i = [tab |-> <<D(FdNums[2], k, a, f, 0, 1, "no", c)>>, io |-> K7]

Arch(id, n) ==
  CASE id = 1  -> D(n, "reg", 0, {"LARGEFILE"}, 1, 1, "no", "no")                        \* r
    [] id = 2  -> D(n, "reg", 2, {"APPEND", "CLOEXEC", "LARGEFILE"}, 2, 2, "stale", "no") \* a+
    [] id = 3  -> D(n, "socket", 2, {"CLOEXEC"}, 0, 1, "no", "no")
    [] id = 4  -> D(n, "pipe", 1, {}, 0, 1, "no", "no")
    [] id = 5  -> D(n, "reg", 1, {"CREAT", "TRUNC", "LARGEFILE"}, 3, 1, "no", "no")       \* w, same file as 1
    [] id = 6  -> D(n, "reg", 2, {"LARGEFILE"}, 4, 3, "no", "c1")
    [] id = 7  -> D(n, "reg", 1, {"APPEND", "LARGEFILE"}, 5, 3, "no", "c2")
    [] id = 8  -> D(n, "dev", 2, {"LARGEFILE"}, 0, 1, "no", "no")
    [] id = 9  -> D(n, "reg", 3, {"LARGEFILE"}, 0, 4, "no", "no")                        \* access mode 3
    [] id = 10 -> D(n, "rel", 0, {"LARGEFILE"}, 6, 1, "no", "no")
    [] id = 11 -> D(n, "dir", 0, {"LARGEFILE", "CLOEXEC"}, 0, 1, "no", "no")
    [] id = 12 -> D(n, "anon", 2, {}, 0, 1, "no", "no")
    [] id = 13 -> D(n, "reg", 0, {"LARGEFILE"}, 7, 5, "gone", "no")
    [] id = 14 -> D(n, "reg", 0, {"LARGEFILE", "CLOEXEC"}, 8, 3, "no", "c3")
    [] id = 15 -> D(n, "reg", 1, {"APPEND"}, 9, 6, "literal", "no")                      \* a
    [] id = 16 -> D(n, "reg", 2, {"LARGEFILE"}, 10, 7, "both", "no")                     \* r+

IsTable(i, pal, len) ==
  \E n \in 0..len : \E s \in [1..n -> pal] :
     i = [tab |-> [k \in 1..n |-> Arch(s[k], FdNums[k])], io |-> K7]

IsIoInput(i) == \E l \in IoUpTo(IoJunk) : i = [tab |-> <<>>, io |-> l]

IsInput(i) == \/ IsSingleReg(i) \/ IsSingleOther(i)
              \/ IsTable(i, PalA, LenA) \/ IsTable(i, PalB, LenB)
              \/ IsIoInput(i)

Pending == [pending |-> TRUE]

Init == /\ IsInput(inp)
        /\ out = Pending
        /\ ev = [op |-> "init"]

Observe == /\ out = Pending
           /\ out' = F(inp)
           /\ inp' = inp
           /\ ev' = [op |-> "observe", inp |-> inp, out |-> F(inp)]

Next == Observe
Spec == Init /\ [][Next]_vars

(* -------- structural facts about F, checked over the whole input space --- *)
Done == out # Pending
Tab  == inp.tab
All  == out.rows \cup out.opt

\* the input is a descriptor table: numbers are distinct
WellFormed == \A j, k \in DOMAIN Tab : j # k => Tab[j].fd # Tab[k].fd

\* num_fds counts every descriptor of every kind; open_files never lists more,
\* lists a descriptor at most once, and lists only descriptors of the table
Counts == Done => /\ out.num_fds = Len(Tab)
                  /\ Cardinality(All) <= out.num_fds
                  /\ Cardinality({r.fd : r \in All}) = Cardinality(All)
                  /\ {r.fd : r \in All} \subseteq {Tab[k].fd : k \in DOMAIN Tab}

\* exactly the regular files: nothing that is a socket, pipe, device, directory,
\* anonymous inode or has a relative target is ever listed; nothing that closes
\* during the scan is listed; every other regular descriptor is listed or optional
ExactlyRegular ==
  Done => \A k \in DOMAIN Tab :
            LET d == Tab[k]
                listed == \E r \in out.rows : r.fd = d.fd
                maybe  == \E r \in out.opt : r.fd = d.fd
            IN /\ (d.kind # "reg" \/ Closing(d)) => ~listed /\ ~maybe
               /\ (d.kind = "reg" /\ ~Closing(d)) => (listed # maybe)
               /\ maybe => d.del = "gone"

\* each row is a function of its own descriptor only: the answer for a table is
\* the union of the answers for its one-descriptor tables, in any order
Local == Done => /\ out.rows = UNION {F([inp EXCEPT !.tab = <<Tab[k]>>]).rows : k \in DOMAIN Tab}
                 /\ out.opt = UNION {F([inp EXCEPT !.tab = <<Tab[k]>>]).opt : k \in DOMAIN Tab}
                 /\ LET rev == [k \in DOMAIN Tab |-> Tab[Len(Tab) + 1 - k]]
                    IN F([inp EXCEPT !.tab = rev]).rows = out.rows

\* the mode is one of the five documented strings (or free for access mode 3) and
\* is implied by the reported flags number alone
ModeFromFlags == Done => \A r \in All : /\ r.mode \in Modes \cup {"any"}
                                        /\ (r.mode = "any") = (r.flags % 4 = 3)
                                        /\ r.mode = ModeOfWord(r.flags)

\* the reported number decodes to the access mode and the kept flags, and the
\* creation flags O_CREAT / O_TRUNC never influence any answer
FlagsFaithful ==
  Done => /\ \A k \in Sel(Tab, Must) \cup Sel(Tab, May) :
               LET d == Tab[k]  w == Row(d).flags
                   on(f) == (w \div Bit(f)) % 2 = 1
               IN /\ w % 4 = d.acc
                  /\ \A f \in FlagsAll \ {"CREAT", "TRUNC"} : on(f) = (f \in d.fl)
                  /\ ~on("CREAT") /\ ~on("TRUNC")
          /\ LET strip == [k \in DOMAIN Tab |-> [Tab[k] EXCEPT !.fl = @ \ {"CREAT", "TRUNC"}]]
             IN F([inp EXCEPT !.tab = strip]) = out

\* blank and malformed lines never change io_counters(); the six counters come
\* from six different lines; the descriptor table and io do not influence each other
IoTolerant == Done => /\ out.io = Fio(SelectSeq(inp.io, IsKV))
                      /\ Cardinality({out.io[n] : n \in DOMAIN out.io}) = 6
                      /\ F([inp EXCEPT !.tab = <<>>]).io = out.io
                      /\ F([inp EXCEPT !.io = K6]).rows = out.rows

Total == Done => out.ok

DumpL == PrintT(<<"TR", ToJson(<<inp, out>>), ToJson(ev'), ToJson(<<inp', out'>>), TLCGet("level")>>)
\* compact dump: the event carries input and answers already
DumpE == PrintT(<<"TR", "-", ToJson(ev'), "-", TLCGet("level")>>)
=============================================================================

------------------------------ MODULE WaitProcs ------------------------------
(***************************************************************************)
(* C15 -- psutil.wait_procs(procs, timeout, callback): the contract of one *)
(* call, stated over the record of an execution in virtual time (same      *)
(* half-unit clock as Wait.tla).  The real function is driven over the     *)
(* simulated kernel with seeded exit schedules; every execution is logged  *)
(* as one record and TLC evaluates the contract on each (trace validation: *)
(* Init picks a record, the invariant is the contract).                    *)
(*                                                                         *)
(* Record fields: procs (indices 1..n), kind[i], exitAt[i] (9999 = never), *)
(* code[i] (what wait() must report for a child), timeout (9999 = None),   *)
(* gone, alive (index lists as returned), callbacks (sequence of indices   *)
(* in call order), rc[i] (returncode attribute, 9997 = attribute absent,   *)
(* 9996 = None), ret (instant of return).                                  *)
(***************************************************************************)
EXTENDS Naturals, Integers, Sequences, FiniteSets, TLC, Json, IOUtils, Functions

CONSTANT Cap    \* 800 half-units = one 40 ms poll

Traces == ndJsonDeserialize(IOEnv.TRACE_FILE)

VARIABLE idx
Init == idx \in 1..Len(Traces)
Next == UNCHANGED idx

NoneT == 9999   NoAttr == 9997   NoneV == 9996   Never == 9999

T == Traces[idx]
N == Len(T.kind)
Procs == 1..N
Gone == Range(T.gone)
Alive == Range(T.alive)
Count(seq, x) == Cardinality({i \in DOMAIN seq : seq[i] = x})

\* gone / alive: disjoint, cover every input exactly once
Partition ==
  /\ Gone \cup Alive = Procs
  /\ Gone \cap Alive = {}
  /\ Len(T.gone) = Cardinality(Gone) /\ Len(T.alive) = Cardinality(Alive)

\* a process is reported gone only if it really ended by the time of return
GoneReallyEnded == \A i \in Gone : T.exitAt[i] # Never /\ T.exitAt[i] <= T.ret

\* returncode set on every gone process: exit code / negated signal for a
\* child, None otherwise; never on an alive one
ReturnCodes ==
  /\ \A i \in Gone : IF T.kind[i] = "child" THEN T.rc[i] = T.code[i] ELSE T.rc[i] = NoneV
  /\ \A i \in Alive : T.rc[i] = NoAttr

\* callback exactly once per gone process, never for an alive one
Callbacks == \A i \in Procs : Count(T.callbacks, i) = (IF i \in Gone THEN 1 ELSE 0)

\* back no later than the timeout plus one poll; without a timeout, back
\* only when everything is gone
InTime ==
  IF T.timeout = NoneT THEN Alive = {}
  ELSE T.ret <= T.timeout + Cap

\* with time to spare nothing that ended early is left in `alive`
NoStragglers ==
  (T.timeout # NoneT) => \A i \in Alive : T.exitAt[i] = Never \/ T.exitAt[i] + 2 * Cap > T.timeout

Contract == \/ (Partition /\ GoneReallyEnded /\ ReturnCodes /\ Callbacks /\ InTime)
            \/ PrintT(<<"REJECTED", idx,
                        <<Partition, GoneReallyEnded, ReturnCodes, Callbacks, InTime>>>>) /\ FALSE
=============================================================================

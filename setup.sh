#!/bin/sh
# Build the framework offline: extension build cache and cached transition dumps.
cd "$(dirname "$0")" || exit 1
export PYTHONHASHSEED=0
/venv/bin/python -m harness.warm || exit 1
